//! C05 — every emitted font is a well-formed, internally consistent OpenType file.
//!
//! Two input families, one oracle:
//!  * FIXTURES: every compilable source under /repo/resources/testdata x component / feature /
//!    naming option sets, compiled with the product binary.
//!  * GENERATED: the complete product of a set of small structural toggles of a `dgen` design
//!    (axes / master layout, `.notdef`, glyph inventory, advances, composites, kerning, anchors,
//!    feature code, vertical metrics, designspace rules, named instances), each compiled in process
//!    (`fcx::compile`) under every option set of the tier. The toggles and their values are
//!    documented on `Toggles`, the domains per tier are `QUICK` (7 488 designs x 4 option sets) and
//!    `THOROUGH` (70 560 designs x 8 option sets, + the 11 remaining subsets of the four component
//!    options on designs with composites: about 1.19 million compiles). A violation is keyed by the
//!    issue code and the features of the smallest failing case (`report_generated_hits`).
//!
//! Oracle: `otref::check_font` — raw-byte sfnt checker + complete read-fonts traversal +
//! cross-table reference bounds + skrifa as a second reader. Only successful compiles are judged.
use dgen::Design;

use serde_json::{Value, json};
use std::{
    collections::{BTreeMap, BTreeSet},
    path::{Path, PathBuf},
    sync::atomic::{AtomicBool, Ordering},
};
use vcore::{Reporter, Scratch, Tier};

const TESTDATA: &str = "/repo/resources/testdata";
const COMPILE_TIMEOUT_MS: u64 = 60_000;
const COMPILER_THREADS: &str = "4";

/// (name, command-line arguments)
const OPTION_SETS: [(&str, &[&str]); 8] = [
    ("default", &[]),
    ("flatten", &["--flatten-components=true"]),
    ("skip-features", &["--skip-features"]),
    ("decompose", &["--decompose-components"]),
    ("decompose-transformed", &["--decompose-transformed-components"]),
    ("no-prefer-simple", &["--prefer-simple-glyphs=false"]),
    ("keep-direction", &["--keep-direction"]),
    ("no-production-names", &["--no-production-names"]),
];
/// The quick tier runs the first three option sets on every fixture.
const QUICK_OPTION_SETS: usize = 3;

/// One source to compile.
#[derive(Clone)]
struct Case {
    /// stable name: path relative to the testdata directory
    name: String,
    source: PathBuf,
}

/// Every *.designspace, *.glyphs (files) and *.ufo, *.glyphspackage (directories, not
/// descended into) below the testdata directory.
fn fixture_cases() -> Vec<Case> {
    fn visit(dir: &Path, out: &mut Vec<PathBuf>) {
        let Ok(entries) = std::fs::read_dir(dir) else { return };
        for entry in entries.flatten() {
            let path = entry.path();
            let ext = path.extension().and_then(|e| e.to_str()).unwrap_or("");
            if path.is_dir() {
                if ext == "ufo" || ext == "glyphspackage" {
                    out.push(path);
                } else {
                    visit(&path, out);
                }
            } else if ext == "designspace" || ext == "glyphs" {
                out.push(path);
            }
        }
    }
    let mut paths = vec![];
    visit(Path::new(TESTDATA), &mut paths);
    paths.sort();
    paths
        .into_iter()
        .map(|p| Case { name: p.strip_prefix(TESTDATA).unwrap_or(&p).to_string_lossy().into_owned(), source: p })
        .collect()
}

// ==========================================================================================
// GENERATED DESIGNS
// ==========================================================================================

use checks::kitchen::*;


/// The in-process equivalent of one entry of `OPTION_SETS`.
fn opts_of(name: &str) -> Option<fcx::Opts> {
    let mut o = fcx::Opts::default();
    match name {
        "default" => {}
        "flatten" => o.flatten = true,
        "skip-features" => o.skip_features = true,
        "decompose" => o.decompose = true,
        "decompose-transformed" => o.decompose_transformed = true,
        "no-prefer-simple" => o.no_prefer_simple = true,
        "keep-direction" => o.keep_direction = true,
        "no-production-names" => o.no_production_names = true,
        _ => return None,
    }
    Some(o)
}

/// The option sets of the generated family: (name, options, only for designs with composites).
fn generated_option_sets(tier: Tier) -> Vec<(String, fcx::Opts, bool)> {
    let names: &[&str] = match tier {
        Tier::Quick => &["default", "flatten", "decompose", "no-prefer-simple"],
        Tier::Thorough => &["default", "flatten", "skip-features", "decompose", "decompose-transformed", "no-prefer-simple", "keep-direction", "no-production-names"],
    };
    let mut v: Vec<(String, fcx::Opts, bool)> = names.iter().map(|n| (n.to_string(), opts_of(n).unwrap(), false)).collect();
    if tier == Tier::Thorough {
        // every subset of the four component options; the empty set and the singletons are above
        for bits in 0u32..16 {
            if bits.count_ones() >= 2 {
                let o = fcx::Opts { flatten: bits & 1 != 0, decompose: bits & 2 != 0, decompose_transformed: bits & 4 != 0, no_prefer_simple: bits & 8 != 0, ..Default::default() };
                v.push((o.name(), o, true));
            }
        }
    }
    v
}

/// Structural traits of a compiled font, read with read-fonts: the non-vacuity counters.
fn font_traits(bytes: &[u8], summary: &otref::Summary) -> Vec<&'static str> {
    use skrifa::raw::{
        FontRef, TableProvider,
        tables::{cmap::CmapSubtable, gpos::PositionLookup, gsub::SubstitutionLookup},
    };
    let mut t = vec![];
    let Ok(font) = FontRef::new(bytes) else { return t };
    if summary.is_variable {
        t.push("variable");
    }
    if summary.composite_glyphs > 0 {
        t.push("composites");
    }
    if summary.max_component_depth >= 2 {
        t.push("nested_composites");
    }
    if summary.max_component_depth >= 3 {
        t.push("composites_depth_3");
    }
    if summary.has_gsub {
        t.push("GSUB");
    }
    if summary.has_gpos {
        t.push("GPOS");
    }
    if summary.has_gsub || summary.has_gpos {
        t.push("GSUB_or_GPOS");
    }
    for (tag, name) in [("GDEF", "GDEF"), ("MVAR", "MVAR"), ("avar", "avar"), ("vmtx", "vmtx"), ("VVAR", "VVAR"), ("STAT", "STAT"), ("gvar", "gvar"), ("HVAR", "HVAR")] {
        if summary.tables.iter().any(|x| x == tag) {
            t.push(name);
        }
    }
    if let Ok(gpos) = font.gpos() {
        if let Ok(list) = gpos.lookup_list() {
            for lookup in list.lookups().iter().flatten() {
                let kind = match lookup {
                    PositionLookup::Single(_) => "GPOS_single",
                    PositionLookup::Pair(l) => {
                        use skrifa::raw::tables::gpos::PairPos;
                        for sub in l.subtables().iter().flatten() {
                            t.push(match sub {
                                PairPos::Format1(_) => "GPOS_pair_glyphs",
                                PairPos::Format2(_) => "GPOS_pair_classes",
                            });
                        }
                        "GPOS_pair"
                    }
                    PositionLookup::Cursive(_) => "GPOS_cursive",
                    PositionLookup::MarkToBase(_) => "GPOS_mark_to_base",
                    PositionLookup::MarkToLig(_) => "GPOS_mark_to_ligature",
                    PositionLookup::MarkToMark(_) => "GPOS_mark_to_mark",
                    PositionLookup::Contextual(_) => "GPOS_contextual",
                    PositionLookup::ChainContextual(_) => "GPOS_chain_contextual",
                    PositionLookup::Extension(_) => "GPOS_extension",
                };
                t.push(kind);
            }
        }
        if gpos.feature_variations().is_some() {
            t.push("GPOS_FeatureVariations");
        }
    }
    if let Ok(gsub) = font.gsub() {
        if let Ok(list) = gsub.lookup_list() {
            for lookup in list.lookups().iter().flatten() {
                t.push(match lookup {
                    SubstitutionLookup::Single(_) => "GSUB_single",
                    SubstitutionLookup::Multiple(_) => "GSUB_multiple",
                    SubstitutionLookup::Alternate(_) => "GSUB_alternate",
                    SubstitutionLookup::Ligature(_) => "GSUB_ligature",
                    SubstitutionLookup::Contextual(_) => "GSUB_contextual",
                    SubstitutionLookup::ChainContextual(_) => "GSUB_chain_contextual",
                    SubstitutionLookup::Extension(_) => "GSUB_extension",
                    SubstitutionLookup::Reverse(_) => "GSUB_reverse",
                });
            }
        }
        if let Some(Ok(fv)) = gsub.feature_variations() {
            t.push("GSUB_FeatureVariations");
            if fv.feature_variation_record_count() >= 3 {
                t.push("GSUB_FeatureVariations_3_or_more_records");
            }
        }
    }
    if let Ok(gdef) = font.gdef() {
        if gdef.item_var_store().is_some() {
            t.push("GDEF_variation_store");
        }
        if gdef.mark_attach_class_def().is_some() {
            t.push("GDEF_mark_attach_classes");
        }
    }
    if let Ok(hvar) = font.hvar() {
        t.push(if hvar.advance_width_mapping().is_some() { "HVAR_with_index_map" } else { "HVAR_direct" });
    }
    if let Ok(vvar) = font.vvar() {
        t.push(if vvar.advance_height_mapping().is_some() { "VVAR_with_index_map" } else { "VVAR_direct" });
    }
    if let Ok(gvar) = font.gvar() {
        if gvar.shared_tuple_count() > 0 {
            t.push("gvar_with_shared_tuples");
        }
    }
    if let Ok(fvar) = font.fvar() {
        if fvar.instance_count() > 0 {
            t.push("fvar_named_instances");
        }
        if fvar.axis_count() >= 2 {
            t.push("fvar_two_axes");
        }
        if let Ok(axes) = fvar.axes() {
            if axes.iter().any(|a| a.flags() & 1 != 0) {
                t.push("fvar_hidden_axis");
            }
        }
    }
    if let Ok(cmap) = font.cmap() {
        for rec in cmap.encoding_records() {
            match rec.subtable(cmap.offset_data()) {
                Ok(CmapSubtable::Format12(_)) => t.push("cmap_format_12"),
                Ok(CmapSubtable::Format4(_)) => t.push("cmap_format_4"),
                _ => {}
            }
        }
    }
    if let Ok(hhea) = font.hhea() {
        if hhea.number_of_h_metrics() < summary.num_glyphs {
            t.push("hmtx_fewer_long_metrics_than_glyphs");
        }
    }
    if let Ok(vhea) = font.vhea() {
        if vhea.number_of_long_ver_metrics() < summary.num_glyphs {
            t.push("vmtx_fewer_long_metrics_than_glyphs");
        }
    }
    if let Ok(post) = font.post() {
        if post.version() == skrifa::raw::types::Version16Dot16::VERSION_2_0 {
            t.push("post_version_2");
        }
    }
    t.sort();
    t.dedup();
    t
}

/// errors grouped by their text with names, numbers and paths taken out
fn failure_class(f: &fcx::Failure) -> String {
    let (kind, msg) = match f {
        fcx::Failure::Error(m) => ("error", m),
        fcx::Failure::Panic(m) => ("panic", m),
    };
    let mut out = String::new();
    let mut in_quote = false;
    let mut last_hash = false;
    for ch in msg.chars() {
        if ch == '"' || ch == '\'' {
            in_quote = !in_quote;
            out.push(ch);
            continue;
        }
        if in_quote {
            continue;
        }
        if ch.is_ascii_digit() {
            if !last_hash {
                out.push('#');
            }
            last_hash = true;
            continue;
        }
        last_hash = false;
        out.push(if ch == '\n' { ' ' } else { ch });
    }
    let out: String = out.split_whitespace().filter(|w| !w.starts_with("/dev/shm") && !w.starts_with("/tmp")).collect::<Vec<_>>().join(" ");
    format!("{kind}: {}", out.chars().take(160).collect::<String>())
}

struct Hit {
    case: usize,
    opt: usize,
    code: String,
    detail: String,
}

/// What the generated family measured, mergeable over work chunks.
#[derive(Default)]
struct GenAgg {
    designs: u64,
    compiles: u64,
    fonts_checked: u64,
    bytes_checked: u64,
    refs_checked: u64,
    fields_traversed: u64,
    cpu_ns: u64,
    compile_cpu_ns: u64,
    check_cpu_ns: u64,
    refs_by_kind: BTreeMap<String, u64>,
    tables_seen: BTreeSet<String>,
    untraversed: BTreeSet<String>,
    /// failure class -> (count, first case id + option set)
    failures: BTreeMap<String, (u64, String)>,
    /// option set -> (checked, failed)
    per_option: BTreeMap<String, (u64, u64)>,
    traits: BTreeMap<&'static str, u64>,
    /// "toggle=value" -> fonts checked
    per_toggle: BTreeMap<String, u64>,
    distinct: BTreeSet<u64>,
    distinct_nontrivial: BTreeSet<u64>,
    hits: Vec<Hit>,
    /// (font bytes, case, option set, summary)
    smallest: Option<(usize, usize, usize, Value)>,
    largest: Option<(usize, usize, usize, Value)>,
    machinery: Vec<String>,
}

impl GenAgg {
    fn merge(&mut self, o: GenAgg) {
        self.designs += o.designs;
        self.compiles += o.compiles;
        self.fonts_checked += o.fonts_checked;
        self.bytes_checked += o.bytes_checked;
        self.refs_checked += o.refs_checked;
        self.fields_traversed += o.fields_traversed;
        self.cpu_ns += o.cpu_ns;
        self.compile_cpu_ns += o.compile_cpu_ns;
        self.check_cpu_ns += o.check_cpu_ns;
        for (k, n) in o.refs_by_kind {
            *self.refs_by_kind.entry(k).or_insert(0) += n;
        }
        self.tables_seen.extend(o.tables_seen);
        self.untraversed.extend(o.untraversed);
        for (k, (n, first)) in o.failures {
            let e = self.failures.entry(k).or_insert((0, first));
            e.0 += n;
        }
        for (k, (a, b)) in o.per_option {
            let e = self.per_option.entry(k).or_insert((0, 0));
            e.0 += a;
            e.1 += b;
        }
        for (k, n) in o.traits {
            *self.traits.entry(k).or_insert(0) += n;
        }
        for (k, n) in o.per_toggle {
            *self.per_toggle.entry(k).or_insert(0) += n;
        }
        self.distinct.extend(o.distinct);
        self.distinct_nontrivial.extend(o.distinct_nontrivial);
        self.hits.extend(o.hits);
        // chunks are merged in canonical order: ties keep the earlier case
        if let Some(s) = o.smallest {
            if self.smallest.as_ref().is_none_or(|x| s.0 < x.0) {
                self.smallest = Some(s);
            }
        }
        if let Some(l) = o.largest {
            if self.largest.as_ref().is_none_or(|x| l.0 > x.0) {
                self.largest = Some(l);
            }
        }
        self.machinery.extend(o.machinery);
    }
}

fn thread_cpu_ns() -> u64 {
    let mut ts = libc::timespec { tv_sec: 0, tv_nsec: 0 };
    // SAFETY: plain syscall filling a local struct
    unsafe { libc::clock_gettime(libc::CLOCK_THREAD_CPUTIME_ID, &mut ts) };
    ts.tv_sec as u64 * 1_000_000_000 + ts.tv_nsec as u64
}

/// One compiled-and-checked generated font.
struct GenChecked {
    hash: u64,
    bytes: usize,
    summary: otref::Summary,
    issues: Vec<otref::Issue>,
    traits: Vec<&'static str>,
    compile_ns: u64,
    check_ns: u64,
}

fn compile_generated(source: &Path, opts: &fcx::Opts) -> Result<GenChecked, fcx::Failure> {
    let t0 = thread_cpu_ns();
    let bytes = fcx::compile(source, opts, None)?;
    let t1 = thread_cpu_ns();
    match std::panic::catch_unwind(|| otref::check_font(&bytes)) {
        Ok((summary, issues)) => {
            let traits = font_traits(&bytes, &summary);
            let t2 = thread_cpu_ns();
            Ok(GenChecked { hash: vcore::hash64(&bytes), bytes: bytes.len(), summary, issues, traits, compile_ns: t1 - t0, check_ns: t2 - t1 })
        }
        Err(_) => vcore::machinery_error(&format!("otref::check_font panicked on the font compiled from {} [{}]", source.display(), opts.name())),
    }
}

fn run_generated_chunk(cases: &[Toggles], range: std::ops::Range<usize>, option_sets: &[(String, fcx::Opts, bool)]) -> GenAgg {
    let mut agg = GenAgg::default();
    let cpu0 = thread_cpu_ns();
    for ci in range {
        let t = &cases[ci];
        let design = build_design(t);
        let scratch = Scratch::new("c05g");
        let source = match design.write_source(scratch.path()) {
            Ok(p) => p,
            Err(e) => {
                agg.machinery.push(format!("cannot write the source of {}: {e}", t.id()));
                continue;
            }
        };
        agg.designs += 1;
        for (oi, (oname, opts, composites_only)) in option_sets.iter().enumerate() {
            if *composites_only && t.comps == 0 {
                continue;
            }
            agg.compiles += 1;
            let tally = agg.per_option.entry(oname.clone()).or_insert((0, 0));
            match compile_generated(&source, opts) {
                Err(f) => {
                    tally.1 += 1;
                    let e = agg.failures.entry(failure_class(&f)).or_insert((0, format!("{} [{oname}]", t.id())));
                    e.0 += 1;
                }
                Ok(c) => {
                    tally.0 += 1;
                    agg.fonts_checked += 1;
                    agg.compile_cpu_ns += c.compile_ns;
                    agg.check_cpu_ns += c.check_ns;
                    agg.bytes_checked += c.bytes as u64;
                    agg.refs_checked += c.summary.refs_checked;
                    agg.fields_traversed += c.summary.fields_traversed;
                    for (k, n) in &c.summary.refs_by_kind {
                        *agg.refs_by_kind.entry(k.clone()).or_insert(0) += n;
                    }
                    agg.tables_seen.extend(c.summary.tables.iter().cloned());
                    agg.untraversed.extend(c.summary.untraversed_tables.iter().cloned());
                    agg.distinct.insert(c.hash);
                    if c.summary.is_variable || c.summary.has_gsub || c.summary.has_gpos || c.summary.composite_glyphs > 0 {
                        agg.distinct_nontrivial.insert(c.hash);
                    }
                    for tr in &c.traits {
                        *agg.traits.entry(tr).or_insert(0) += 1;
                    }
                    for (k, v) in [
                        ("layout", t.layout),
                        ("notdef", t.notdef),
                        ("inv", t.inv),
                        ("adv", t.adv),
                        ("comps", t.comps),
                        ("kern", t.kern),
                        ("marks", t.marks),
                        ("fea", t.fea),
                        ("vert", t.vert),
                        ("rules", t.rules),
                        ("inst", t.inst),
                    ] {
                        *agg.per_toggle.entry(format!("{k}={v}")).or_insert(0) += 1;
                    }
                    if agg.smallest.as_ref().is_none_or(|x| c.bytes < x.0) {
                        agg.smallest = Some((c.bytes, ci, oi, json!(c.summary)));
                    }
                    if agg.largest.as_ref().is_none_or(|x| c.bytes > x.0) {
                        agg.largest = Some((c.bytes, ci, oi, json!(c.summary)));
                    }
                    for issue in c.issues {
                        agg.hits.push(Hit { case: ci, opt: oi, code: issue.code, detail: issue.detail });
                    }
                }
            }
        }
    }
    agg.cpu_ns = thread_cpu_ns().saturating_sub(cpu0);
    agg
}

fn generated_replay(t: &Toggles, oname: &str, opts: &fcx::Opts) -> Value {
    json!({"case": t.id(), "toggles": t, "features_on": t.atoms(), "option_set": oname, "opts": opts, "design": build_design(t)})
}

/// Report the issues found on generated fonts. Per issue code the failing (case, option set)
/// pairs are sorted by size; a pair whose features include those of an earlier, smaller failing
/// pair belongs to that pair's class. One key per class: `<code>:gen:<features of the smallest
/// failing case>`; the replay file of the key is that smallest case.
fn report_generated_hits(rep: &mut Reporter, cases: &[Toggles], option_sets: &[(String, fcx::Opts, bool)], hits: &[Hit]) -> BTreeMap<String, u64> {
    let atoms_of = |h: &Hit| -> BTreeSet<String> {
        let mut a: BTreeSet<String> = cases[h.case].atoms().into_iter().map(String::from).collect();
        let o = &option_sets[h.opt].0;
        if o != "default" {
            a.extend(o.split('+').map(|x| format!("opt-{x}")));
        }
        a
    };
    let mut by_code: BTreeMap<&str, Vec<&Hit>> = BTreeMap::new();
    for h in hits {
        by_code.entry(&h.code).or_default().push(h);
    }
    let mut per_key = BTreeMap::new();
    for (code, mut list) in by_code {
        list.sort_by_key(|h| (atoms_of(h).len(), cases[h.case].weight(), h.case, h.opt));
        let mut classes: Vec<(BTreeSet<String>, String)> = vec![];
        for h in list {
            let atoms = atoms_of(h);
            let key = match classes.iter().find(|(a, _)| a.is_subset(&atoms)) {
                Some((_, key)) => key.clone(),
                None => {
                    let key = format!("{code}:gen:{}", if atoms.is_empty() { "base".to_string() } else { atoms.iter().cloned().collect::<Vec<_>>().join("+") });
                    classes.push((atoms, key.clone()));
                    key
                }
            };
            *per_key.entry(key.clone()).or_insert(0) += 1;
            let (oname, opts, _) = &option_sets[h.opt];
            let t = &cases[h.case];
            // the reporter keeps the first replay of a key: build the (large) replay only then
            let first = !rep.is_known(&key) && per_key[&key] == 1;
            let replay = if first { generated_replay(t, oname, opts) } else { json!({"case": t.id(), "option_set": oname}) };
            rep.violation(&key, &format!("generated {} [{oname}] {}", t.id(), h.detail), replay);
        }
    }
    per_key
}

struct GenRun {
    agg: GenAgg,
    cases: Vec<Toggles>,
    option_sets: Vec<(String, fcx::Opts, bool)>,
    capped: bool,
    wall_s: f64,
    /// size of the enumerated space (`cases` is shorter only under C05_GEN_STRIDE)
    total_cases: usize,
    stride: usize,
}

fn run_generated(tier: Tier) -> GenRun {
    let mut cases = tier.pick(&QUICK, &THOROUGH).enumerate();
    let total_cases = cases.len();
    // diagnostics only (cost calibration): every k-th case of the enumeration
    let stride: usize = std::env::var("C05_GEN_STRIDE").ok().and_then(|s| s.parse().ok()).unwrap_or(1).max(1);
    if stride > 1 {
        cases = cases.into_iter().step_by(stride).collect();
    }
    let option_sets = generated_option_sets(tier);
    // wall-clock cap (the space is sized to finish well inside it on a quiet machine)
    let cap_s: f64 = std::env::var("C05_GEN_CAP_S").ok().and_then(|s| s.parse().ok()).unwrap_or(tier.pick(150.0, 1200.0) * vcore::budget_scale());
    const CHUNK: usize = 16;
    let n_chunks = cases.len().div_ceil(CHUNK);
    let start = std::time::Instant::now();
    let stop = AtomicBool::new(false);
    let hook = std::panic::take_hook();
    // compiler panics are caught by fcx and counted; their messages would only be noise
    fcx::silence_panics();
    // The chunks are worked on in a scattered order (multiples of a step coprime to their number)
    // so that a run cut short by the cap has still seen every layout; results are merged in
    // canonical order.
    let gcd = |mut a: usize, mut b: usize| {
        while b != 0 {
            (a, b) = (b, a % b);
        }
        a
    };
    let mut step = (n_chunks as f64 * 0.618) as usize | 1;
    while n_chunks > 1 && gcd(step, n_chunks) != 1 {
        step += 2;
    }
    let chunk_of = |j: usize| if n_chunks > 1 { (j * step) % n_chunks } else { j };
    let results = vcore::par_for(n_chunks, vcore::ncores(), |j| {
        if stop.load(Ordering::Relaxed) || start.elapsed().as_secs_f64() > cap_s {
            stop.store(true, Ordering::Relaxed);
            return None;
        }
        let k = chunk_of(j);
        Some(run_generated_chunk(&cases, k * CHUNK..((k + 1) * CHUNK).min(cases.len()), &option_sets))
    });
    std::panic::set_hook(hook);
    let mut chunks: Vec<(usize, Option<GenAgg>)> = results.into_iter().enumerate().map(|(j, r)| (chunk_of(j), r)).collect();
    chunks.sort_by_key(|(k, _)| *k);
    let mut agg = GenAgg::default();
    let mut capped = false;
    for (_, c) in chunks {
        match c {
            Some(c) => agg.merge(c),
            None => capped = true,
        }
    }
    GenRun { agg, cases, option_sets, capped, wall_s: start.elapsed().as_secs_f64(), total_cases, stride }
}

// ==========================================================================================
// FIXTURES (product binary)
// ==========================================================================================

enum Outcome {
    /// the compiler said no (counted, judged by other properties)
    CompileFailed(String),
    /// exit 0 but no font file
    NoOutput(String),
    Checked { hash: u64, summary: otref::Summary, issues: Vec<otref::Issue>, bytes: usize, traits: Vec<&'static str> },
}

fn compile_and_check(case: &Case, options: &[&str]) -> Outcome {
    let scratch = Scratch::new("c05");
    let out = scratch.join("font.ttf");
    let mut cmd = vcore::fontc_cmd(&vcore::fontc_bin(), None);
    // 16 compiles run side by side: a full-width rayon pool in each only adds contention
    cmd.env("RAYON_NUM_THREADS", COMPILER_THREADS);
    cmd.current_dir(scratch.path()).arg(&case.source).arg("-o").arg(&out).arg("-b").arg(scratch.join("build")).args(options);
    let run = vcore::run_proc(&mut cmd, COMPILE_TIMEOUT_MS, None);
    if run.code != Some(0) {
        return Outcome::CompileFailed(run.summary());
    }
    match std::fs::read(&out) {
        Ok(bytes) => match std::panic::catch_unwind(|| otref::check_font(&bytes)) {
            Ok((summary, issues)) => {
                let traits = font_traits(&bytes, &summary);
                Outcome::Checked { hash: vcore::hash64(&bytes), summary, issues, bytes: bytes.len(), traits }
            }
            Err(_) => vcore::machinery_error(&format!("otref::check_font panicked on the font compiled from {} {options:?}", case.name)),
        },
        Err(e) => Outcome::NoOutput(format!("exit 0 but {}: {e}", out.display())),
    }
}

fn replay_generated(rep: &mut Reporter, path: &Path, r: &Value) {
    let design: Design = serde_json::from_value(r["design"].clone()).unwrap_or_else(|e| vcore::machinery_error(&format!("replay {path:?}: design: {e}")));
    let opts: fcx::Opts = match r.get("opts") {
        Some(o) => serde_json::from_value(o.clone()).unwrap_or_else(|e| vcore::machinery_error(&format!("replay {path:?}: opts: {e}"))),
        None => r["option_set"].as_str().and_then(opts_of).unwrap_or_else(|| vcore::machinery_error(&format!("replay {path:?}: needs opts or a known option_set"))),
    };
    let name = r["case"].as_str().unwrap_or("generated");
    let features: Vec<String> = r["features_on"].as_array().map(|a| a.iter().filter_map(|x| x.as_str().map(String::from)).collect()).unwrap_or_default();
    let scratch = Scratch::new("c05-replay");
    let source = design.write_source(scratch.path()).unwrap_or_else(|e| vcore::machinery_error(&format!("replay {path:?}: cannot write the source: {e}")));
    eprintln!("[C05] replay: generated design {name} ({} glyphs, {} masters) [{}]", design.glyphs.len(), design.masters.len(), opts.name());
    match compile_generated(&source, &opts) {
        Err(f) => eprintln!("[C05] replay: compile failed ({f:?}); nothing to judge"),
        Ok(c) => {
            eprintln!("[C05] replay: {} bytes, tables {:?}, {} issue(s)", c.bytes, c.summary.tables, c.issues.len());
            let mut atoms: Vec<String> = features;
            if opts.name() != "default" {
                atoms.extend(opts.name().split('+').map(|x| format!("opt-{x}")));
            }
            atoms.sort();
            let class = if atoms.is_empty() { "base".to_string() } else { atoms.join("+") };
            for issue in c.issues {
                rep.violation(&format!("{}:gen:{class}", issue.code), &format!("generated {name} [{}] {}", opts.name(), issue.detail), r.clone());
            }
        }
    }
}

fn replay(rep: &mut Reporter, path: &Path) {
    let text = std::fs::read_to_string(path).unwrap_or_else(|e| vcore::machinery_error(&format!("replay {path:?}: {e}")));
    let v: Value = serde_json::from_str(&text).unwrap_or_else(|e| vcore::machinery_error(&format!("replay {path:?}: {e}")));
    let r = v.get("replay").unwrap_or(&v);
    if r.get("design").is_some() {
        return replay_generated(rep, path, r);
    }
    let (Some(source), Some(name), Some(option_set)) = (r["source"].as_str(), r["case"].as_str(), r["option_set"].as_str()) else {
        vcore::machinery_error(&format!("replay {path:?}: needs source, case, option_set (fixture) or design (generated)"))
    };
    let Some((_, options)) = OPTION_SETS.iter().find(|(n, _)| *n == option_set) else {
        vcore::machinery_error(&format!("replay {path:?}: unknown option set {option_set}"))
    };
    if !vcore::fontc_bin().exists() {
        vcore::machinery_error(&format!("product binary {:?} is missing (run ./check setup)", vcore::fontc_bin()));
    }
    let case = Case { name: name.to_string(), source: PathBuf::from(source) };
    match compile_and_check(&case, options) {
        Outcome::CompileFailed(s) => eprintln!("[C05] replay: compile failed ({s}); nothing to judge"),
        Outcome::NoOutput(what) => rep.violation(&format!("no-output:{name}"), &what, r.clone()),
        Outcome::Checked { issues, .. } => {
            for issue in issues {
                rep.violation(&format!("{}:{name}", issue.code), &format!("[{option_set}] {}", issue.detail), r.clone());
            }
        }
    }
}

fn main() {
    let args = vcore::parse_args();
    let mut rep = Reporter::new("C05", "exploration", &args);
    if let Some(path) = &args.replay {
        replay(&mut rep, path);
        rep.finish();
    }
    // diagnostics: `c05 --case <generated case id> [--opts <option set, e.g. flatten+decompose>] [--keep <dir>]`
    // builds, compiles and checks that single generated design (exit 1 if it has an issue)
    if let Some(i) = args.rest.iter().position(|a| a == "--case") {
        let arg = |name: &str| args.rest.iter().position(|a| a == name).and_then(|i| args.rest.get(i + 1));
        let Some(t) = args.rest.get(i + 1).and_then(|id| Toggles::parse(id)) else {
            vcore::machinery_error("--case needs a generated case id such as L3-n1-i1-a0-c3-k2-m1-f2-v0-r2-s1")
        };
        let oname = arg("--opts").cloned().unwrap_or("default".into());
        let mut opts = fcx::Opts::default();
        for part in oname.split('+') {
            match opts_of(part) {
                Some(o) => {
                    opts = fcx::Opts {
                        flatten: opts.flatten | o.flatten,
                        decompose: opts.decompose | o.decompose,
                        decompose_transformed: opts.decompose_transformed | o.decompose_transformed,
                        no_prefer_simple: opts.no_prefer_simple | o.no_prefer_simple,
                        keep_direction: opts.keep_direction | o.keep_direction,
                        no_production_names: opts.no_production_names | o.no_production_names,
                        skip_features: opts.skip_features | o.skip_features,
                        propagate_anchors: None,
                    }
                }
                None => vcore::machinery_error(&format!("--opts: unknown option set {part}")),
            }
        }
        let scratch = Scratch::new("c05-case");
        let dir = arg("--keep").map(PathBuf::from).unwrap_or(scratch.path().to_path_buf());
        let source = build_design(&t).write_source(&dir).unwrap_or_else(|e| vcore::machinery_error(&format!("cannot write the source: {e}")));
        eprintln!("[C05] case {} (possible: {}) features {:?} source {}", t.id(), t.possible(), t.atoms(), source.display());
        match compile_generated(&source, &opts) {
            Err(f) => eprintln!("[C05] compile failed: {f:?}"),
            Ok(c) => {
                if let Some(out) = arg("--keep") {
                    let _ = std::fs::write(Path::new(out).join("font.ttf"), fcx::compile(&source, &opts, None).unwrap_or_default());
                }
                eprintln!("[C05] {} bytes; {}", c.bytes, json!(c.summary));
                eprintln!("[C05] traits {:?}", c.traits);
                for issue in c.issues {
                    rep.violation(&format!("{}:gen:case", issue.code), &format!("generated {} [{}] {}", t.id(), opts.name(), issue.detail), generated_replay(&t, &opts.name(), &opts));
                }
            }
        }
        rep.finish();
    }
    if !vcore::fontc_bin().exists() {
        vcore::machinery_error(&format!("product binary {:?} is missing (run ./check setup)", vcore::fontc_bin()));
    }

    // ---------------------------------------------------------------- generated family
    let skip_generated = std::env::var("C05_SKIP_GENERATED").is_ok();
    let skip_fixtures = std::env::var("C05_SKIP_FIXTURES").is_ok();
    let gen_run = if skip_generated { None } else { Some(run_generated(args.tier)) };

    // ---------------------------------------------------------------- fixtures
    let cases: Vec<Case> = if skip_fixtures { vec![] } else { fixture_cases() };
    let n_fixtures = cases.len();
    let n_option_sets = args.tier.pick(QUICK_OPTION_SETS, OPTION_SETS.len());
    let jobs: Vec<(usize, usize)> = (0..cases.len()).flat_map(|c| (0..n_option_sets).map(move |o| (c, o))).collect();

    let outcomes = vcore::par_for(jobs.len(), vcore::ncores(), |j| {
        let (c, o) = jobs[j];
        compile_and_check(&cases[c], OPTION_SETS[o].1)
    });

    // tally
    let mut compile_failed = 0u64;
    let mut failed_cases: BTreeSet<&str> = BTreeSet::new();
    let mut fonts_checked = 0u64;
    let mut bytes_checked = 0u64;
    let mut refs_checked = 0u64;
    let mut fields_traversed = 0u64;
    let mut refs_by_kind: BTreeMap<String, u64> = BTreeMap::new();
    let mut distinct: BTreeSet<u64> = BTreeSet::new();
    let mut distinct_nontrivial: BTreeSet<u64> = BTreeSet::new();
    let (mut variable, mut with_layout, mut with_composites) = (0u64, 0u64, 0u64);
    let mut untraversed: BTreeSet<String> = BTreeSet::new();
    let mut tables_seen: BTreeSet<String> = BTreeSet::new();
    let mut per_option_set: BTreeMap<&str, (u64, u64)> = BTreeMap::new();
    let mut samples: Vec<Value> = vec![];
    let mut largest: Option<(usize, Value)> = None;
    let mut fixture_traits: BTreeMap<&'static str, u64> = BTreeMap::new();
    for (j, outcome) in outcomes.iter().enumerate() {
        let (c, o) = jobs[j];
        let (case, option_set) = (&cases[c], OPTION_SETS[o].0);
        let replay = json!({"case": case.name, "source": case.source, "option_set": option_set, "args": OPTION_SETS[o].1});
        let tally = per_option_set.entry(option_set).or_insert((0, 0));
        match outcome {
            Outcome::CompileFailed(_) => {
                compile_failed += 1;
                failed_cases.insert(&case.name);
                tally.1 += 1;
            }
            Outcome::NoOutput(what) => {
                rep.violation(&format!("no-output:{}", case.name), &format!("[{option_set}] {what}"), replay);
            }
            Outcome::Checked { hash, summary, issues, bytes, traits } => {
                for tr in traits {
                    *fixture_traits.entry(tr).or_insert(0) += 1;
                }
                tally.0 += 1;
                fonts_checked += 1;
                bytes_checked += *bytes as u64;
                refs_checked += summary.refs_checked;
                fields_traversed += summary.fields_traversed;
                for (k, n) in &summary.refs_by_kind {
                    *refs_by_kind.entry(k.clone()).or_insert(0) += n;
                }
                untraversed.extend(summary.untraversed_tables.iter().cloned());
                tables_seen.extend(summary.tables.iter().cloned());
                distinct.insert(*hash);
                let layout = summary.has_gsub || summary.has_gpos;
                variable += summary.is_variable as u64;
                with_layout += layout as u64;
                with_composites += (summary.composite_glyphs > 0) as u64;
                if summary.is_variable || layout || summary.composite_glyphs > 0 {
                    distinct_nontrivial.insert(*hash);
                }
                let sample = json!({"case": case.name, "option_set": option_set, "bytes": bytes, "summary": summary});
                if samples.is_empty() || (samples.len() == 1 && j >= outcomes.len() / 2) {
                    samples.push(sample.clone());
                }
                if largest.as_ref().is_none_or(|(b, _)| bytes > b) {
                    largest = Some((*bytes, sample));
                }
                for issue in issues {
                    // one defect = one key: the option set is in the description, not the key
                    rep.violation(&format!("{}:{}", issue.code, case.name), &format!("[{option_set}] {}", issue.detail), replay.clone());
                }
            }
        }
    }
    samples.extend(largest.map(|(_, s)| s));
    let fixture_fonts_checked = fonts_checked;

    // ---------------------------------------------------------------- generated: tally, report
    let mut exhaustive = true;
    if let Some(run) = &gen_run {
        let g = &run.agg;
        for m in &g.machinery {
            eprintln!("[C05] generated: {m}");
        }
        if !g.machinery.is_empty() {
            vcore::machinery_error(&format!("{} generated designs could not be written", g.machinery.len()));
        }
        let keys = report_generated_hits(&mut rep, &run.cases, &run.option_sets, &g.hits);
        fonts_checked += g.fonts_checked;
        bytes_checked += g.bytes_checked;
        refs_checked += g.refs_checked;
        fields_traversed += g.fields_traversed;
        for (k, n) in &g.refs_by_kind {
            *refs_by_kind.entry(k.clone()).or_insert(0) += n;
        }
        untraversed.extend(g.untraversed.iter().cloned());
        tables_seen.extend(g.tables_seen.iter().cloned());
        distinct.extend(g.distinct.iter().copied());
        distinct_nontrivial.extend(g.distinct_nontrivial.iter().copied());
        variable += g.traits.get("variable").copied().unwrap_or(0);
        with_composites += g.traits.get("composites").copied().unwrap_or(0);
        with_layout += g.traits.get("GSUB_or_GPOS").copied().unwrap_or(0);
        let sample_of = |s: &Option<(usize, usize, usize, Value)>, which: &str| {
            s.as_ref().map(|(bytes, ci, oi, summary)| {
                let t = &run.cases[*ci];
                json!({"generated": which, "case": t.id(), "toggles": t, "features_on": t.atoms(), "option_set": run.option_sets[*oi].0, "bytes": bytes, "summary": summary})
            })
        };
        samples.extend(sample_of(&g.smallest, "smallest font"));
        samples.extend(sample_of(&g.largest, "largest font"));
        if let (Some(first), Some(last)) = (run.cases.first(), run.cases.last()) {
            samples.push(json!({"generated": "first and last case of the enumeration", "first": first.id(), "last": last.id()}));
        }
        let failed: u64 = g.failures.values().map(|(n, _)| n).sum();
        rep.set("generated_cases", run.total_cases as u64);
        if run.stride > 1 {
            exhaustive = false;
            rep.assume(&format!("C05_GEN_STRIDE={}: only every {}th generated case was run (diagnostic mode)", run.stride, run.stride));
        }
        rep.set("generated_cases_run", g.designs);
        rep.set("generated_domains", args.tier.pick(&QUICK, &THOROUGH).describe());
        rep.set("generated_case_id", "L<layout>-n<notdef>-i<inv>-a<adv>-c<comps, hex bit set>-k<kern>-m<marks>-f<fea>-v<vert>-r<rules>-s<inst>; the meaning of every value is in the doc comments of `Toggles` in c05.rs");
        rep.set(
            "generated_option_sets",
            json!(run.option_sets.iter().map(|(n, o, comp_only)| json!({"name": n, "args": o.cli_args(), "only_designs_with_composites": comp_only})).collect::<Vec<_>>()),
        );
        rep.set("generated_compiles", g.compiles);
        rep.set("generated_fonts_checked", g.fonts_checked);
        rep.set("generated_compile_failures_not_judged", failed);
        rep.set("generated_compile_failure_classes", json!(g.failures.iter().map(|(k, (n, first))| json!({"class": k, "count": n, "first": first})).collect::<Vec<_>>()));
        rep.set("generated_per_option_set_checked_failed", json!(g.per_option.iter().map(|(k, (a, b))| (k.clone(), json!([a, b]))).collect::<BTreeMap<_, _>>()));
        rep.set("generated_distinct_fonts", g.distinct.len() as u64);
        rep.set("generated_distinct_nontrivial", g.distinct_nontrivial.len() as u64);
        rep.set("generated_fonts_with", json!(g.traits));
        rep.set("generated_fonts_checked_per_toggle_value", json!(g.per_toggle));
        rep.set("generated_issue_keys", json!(keys));
        rep.set("generated_wall_s", (run.wall_s * 100.0).round() / 100.0);
        rep.set("generated_cpu_s", (g.cpu_ns as f64 / 1e7).round() / 100.0);
        rep.set(
            "generated_cpu_s_split",
            json!({
                "compiling (successful compiles)": (g.compile_cpu_ns as f64 / 1e7).round() / 100.0,
                "checking (otref + trait counters)": (g.check_cpu_ns as f64 / 1e7).round() / 100.0,
                "building and writing the sources, failed compiles": (g.cpu_ns.saturating_sub(g.compile_cpu_ns + g.check_cpu_ns) as f64 / 1e7).round() / 100.0,
            }),
        );
        rep.set("generated_cpu_ms_per_compile", if g.compiles > 0 { (g.cpu_ns as f64 / 1e4 / g.compiles as f64).round() / 100.0 } else { 0.0 });
        if run.capped {
            exhaustive = false;
            rep.set("generated_cap_hit", format!("the wall-clock cap was reached after {} of {} generated designs", g.designs, run.cases.len()));
            rep.assume("the generated family was cut short by its wall-clock cap: see generated_cap_hit");
        }
        if g.fonts_checked == 0 {
            vcore::machinery_error("no generated design compiled: the generator is broken");
        }
        if failed * 20 > g.compiles {
            vcore::machinery_error(&format!("{failed} of {} generated compiles failed: the generator is broken (classes: {:?})", g.compiles, g.failures.keys().collect::<Vec<_>>()));
        }
    } else {
        rep.set("generated_cases", 0u64);
        exhaustive = false;
        rep.assume("C05_SKIP_GENERATED is set: the generated family was not run");
    }
    if skip_fixtures {
        exhaustive = false;
        rep.assume("C05_SKIP_FIXTURES is set: the fixtures were not run");
    }
    if fonts_checked == 0 {
        vcore::machinery_error("no font was compiled successfully: nothing was checked");
    }

    rep.set("evaluations", fonts_checked);
    rep.set("distinct_nontrivial", distinct_nontrivial.len() as u64);
    rep.set(
        "rule",
        "FIXTURES: every *.designspace, *.glyphs, *.ufo and *.glyphspackage under /repo/resources/testdata (UFOs and packages are not descended into), each compiled by the product binary under every listed option set. GENERATED: every combination of the toggle domains in generated_domains (full product in canonical order, minus the impossible combinations named there), each written as UFO(+designspace) and compiled in process under every option set in generated_option_sets. Every successfully compiled font is checked by otref::check_font; non-trivial = distinct font files (content hash) that are variable, or have GSUB/GPOS, or have composite glyphs",
    );
    rep.set("fixture_cases", n_fixtures as u64);
    rep.set("fixture_fonts_checked", fixture_fonts_checked);
    rep.set("fixture_fonts_with", json!(fixture_traits));
    rep.set("option_sets", json!(OPTION_SETS[..n_option_sets].iter().map(|(n, a)| json!({"name": n, "args": a})).collect::<Vec<_>>()));
    rep.set("compiles", jobs.len() as u64 + gen_run.as_ref().map(|r| r.agg.compiles).unwrap_or(0));
    rep.set("fixture_compiles", jobs.len() as u64);
    rep.set("compile_failures_not_judged", compile_failed);
    rep.set("cases_with_a_compile_failure", json!(failed_cases));
    rep.set("per_option_set_checked_failed", json!(per_option_set.iter().map(|(k, (a, b))| (k.to_string(), json!([a, b]))).collect::<BTreeMap<_, _>>()));
    rep.set("distinct_fonts", distinct.len() as u64);
    rep.set("fonts_variable", variable);
    rep.set("fonts_with_gsub_or_gpos", with_layout);
    rep.set("fonts_with_composites", with_composites);
    rep.set("bytes_checked", bytes_checked);
    rep.set("refs_checked", refs_checked);
    rep.set("refs_by_kind", json!(refs_by_kind));
    rep.set("fields_traversed", fields_traversed);
    rep.set("tables_seen", json!(tables_seen));
    rep.set("tables_without_reader", json!(untraversed));
    rep.set("samples", samples);
    rep.set("exhaustive", exhaustive);
    rep.assume("oracle: otref (hand-written sfnt/glyf/cmap/gvar/post readers, read-fonts typed tables for the rest, skrifa as second reader); a defect both read-fonts and the hand-written checks overlook is not seen");
    rep.assume("fixtures: the product binary runs with RAYON_NUM_THREADS=4 (its free-running pool; schedules are C01/C02's subject); generated designs: the same compiler code in process, jobs run inline");
    rep.assume("compiles that fail are counted, not judged (C15 covers them); the failure classes of the generated family are listed in generated_compile_failure_classes");
    if args.tier == Tier::Quick {
        rep.assume("quick tier, fixtures: option sets default, flatten, skip-features only; thorough adds decompose, decompose-transformed, no-prefer-simple, keep-direction, no-production-names");
        rep.assume("quick tier, generated: smaller toggle domains (generated_domains) and option sets default, flatten, decompose, no-prefer-simple; thorough: larger domains, all 8 option sets, and all 16 subsets of the four component options on designs with composites");
    }
    rep.finish()
}
