//! C05 — every emitted font is a well-formed, internally consistent OpenType file.
//!
//! Inputs: every compilable source under /repo/resources/testdata (and, later, generated
//! designs) x component / feature / naming option sets, compiled with the product binary.
//! Oracle: `otref::check_font` — raw-byte sfnt checker + complete read-fonts traversal +
//! cross-table reference bounds + skrifa as a second reader. Only exit-0 compiles are judged.
use serde_json::{Value, json};
use std::{
    collections::{BTreeMap, BTreeSet},
    path::{Path, PathBuf},
};
use vcore::{Reporter, Scratch, Tier};

const TESTDATA: &str = "/repo/resources/testdata";
const COMPILE_TIMEOUT_MS: u64 = 60_000;
const COMPILER_THREADS: &str = "4";

/// (name, command-line arguments)
const OPTION_SETS: [(&str, &[&str]); 8] = [
    ("default", &[]),
    ("flatten", &["--flatten-components=true"]),
    ("skip-features", &["--skip-features"]),
    ("decompose", &["--decompose-components"]),
    ("decompose-transformed", &["--decompose-transformed-components"]),
    ("no-prefer-simple", &["--prefer-simple-glyphs=false"]),
    ("keep-direction", &["--keep-direction"]),
    ("no-production-names", &["--no-production-names"]),
];
/// The quick tier runs the first three option sets on every case.
const QUICK_OPTION_SETS: usize = 3;

/// One source to compile.
#[derive(Clone)]
struct Case {
    /// stable name: path relative to the testdata directory, or a generator case id
    name: String,
    source: PathBuf,
}

/// Every *.designspace, *.glyphs (files) and *.ufo, *.glyphspackage (directories, not
/// descended into) below the testdata directory.
fn fixture_cases() -> Vec<Case> {
    fn visit(dir: &Path, out: &mut Vec<PathBuf>) {
        let Ok(entries) = std::fs::read_dir(dir) else { return };
        for entry in entries.flatten() {
            let path = entry.path();
            let ext = path.extension().and_then(|e| e.to_str()).unwrap_or("");
            if path.is_dir() {
                if ext == "ufo" || ext == "glyphspackage" {
                    out.push(path);
                } else {
                    visit(&path, out);
                }
            } else if ext == "designspace" || ext == "glyphs" {
                out.push(path);
            }
        }
    }
    let mut paths = vec![];
    visit(Path::new(TESTDATA), &mut paths);
    paths.sort();
    paths
        .into_iter()
        .map(|p| Case { name: p.strip_prefix(TESTDATA).unwrap_or(&p).to_string_lossy().into_owned(), source: p })
        .collect()
}

// ------------------------------------------------------------------------------------------
// GENERATED DESIGNS: to be filled in. Write each design below `scratch` and return it as a
// `Case` whose `name` is the generator's stable case id.
// ------------------------------------------------------------------------------------------
fn generated_cases(_tier: Tier, _scratch: &Scratch) -> Vec<Case> {
    Vec::new()
}

enum Outcome {
    /// the compiler said no (counted, judged by other properties)
    CompileFailed(String),
    /// exit 0 but no font file
    NoOutput(String),
    Checked { hash: u64, summary: otref::Summary, issues: Vec<otref::Issue>, bytes: usize },
}

fn compile_and_check(case: &Case, options: &[&str]) -> Outcome {
    let scratch = Scratch::new("c05");
    let out = scratch.join("font.ttf");
    let mut cmd = vcore::fontc_cmd(&vcore::fontc_bin(), None);
    // 16 compiles run side by side: a full-width rayon pool in each only adds contention
    cmd.env("RAYON_NUM_THREADS", COMPILER_THREADS);
    cmd.current_dir(scratch.path()).arg(&case.source).arg("-o").arg(&out).arg("-b").arg(scratch.join("build")).args(options);
    let run = vcore::run_proc(&mut cmd, COMPILE_TIMEOUT_MS, None);
    if run.code != Some(0) {
        return Outcome::CompileFailed(run.summary());
    }
    match std::fs::read(&out) {
        Ok(bytes) => match std::panic::catch_unwind(|| otref::check_font(&bytes)) {
            Ok((summary, issues)) => Outcome::Checked { hash: vcore::hash64(&bytes), summary, issues, bytes: bytes.len() },
            Err(_) => vcore::machinery_error(&format!("otref::check_font panicked on the font compiled from {} {options:?}", case.name)),
        },
        Err(e) => Outcome::NoOutput(format!("exit 0 but {}: {e}", out.display())),
    }
}

fn replay(rep: &mut Reporter, path: &Path) {
    let text = std::fs::read_to_string(path).unwrap_or_else(|e| vcore::machinery_error(&format!("replay {path:?}: {e}")));
    let v: Value = serde_json::from_str(&text).unwrap_or_else(|e| vcore::machinery_error(&format!("replay {path:?}: {e}")));
    let r = v.get("replay").unwrap_or(&v);
    let (Some(source), Some(name), Some(option_set)) = (r["source"].as_str(), r["case"].as_str(), r["option_set"].as_str()) else {
        vcore::machinery_error(&format!("replay {path:?}: needs source, case, option_set"))
    };
    let Some((_, options)) = OPTION_SETS.iter().find(|(n, _)| *n == option_set) else {
        vcore::machinery_error(&format!("replay {path:?}: unknown option set {option_set}"))
    };
    let case = Case { name: name.to_string(), source: PathBuf::from(source) };
    match compile_and_check(&case, options) {
        Outcome::CompileFailed(s) => eprintln!("[C05] replay: compile failed ({s}); nothing to judge"),
        Outcome::NoOutput(what) => rep.violation(&format!("no-output:{name}"), &what, r.clone()),
        Outcome::Checked { issues, .. } => {
            for issue in issues {
                rep.violation(&format!("{}:{name}", issue.code), &format!("[{option_set}] {}", issue.detail), r.clone());
            }
        }
    }
}

fn main() {
    let args = vcore::parse_args();
    let mut rep = Reporter::new("C05", "exploration", &args);
    if !vcore::fontc_bin().exists() {
        vcore::machinery_error(&format!("product binary {:?} is missing (run ./check setup)", vcore::fontc_bin()));
    }
    if let Some(path) = &args.replay {
        replay(&mut rep, path);
        rep.finish();
    }

    let generated_dir = Scratch::new("c05gen");
    let fixtures = fixture_cases();
    let generated = generated_cases(args.tier, &generated_dir);
    let n_fixtures = fixtures.len();
    let cases: Vec<Case> = fixtures.into_iter().chain(generated).collect();
    let n_option_sets = args.tier.pick(QUICK_OPTION_SETS, OPTION_SETS.len());
    let jobs: Vec<(usize, usize)> = (0..cases.len()).flat_map(|c| (0..n_option_sets).map(move |o| (c, o))).collect();

    let outcomes = vcore::par_for(jobs.len(), vcore::ncores(), |j| {
        let (c, o) = jobs[j];
        compile_and_check(&cases[c], OPTION_SETS[o].1)
    });

    // tally
    let mut compile_failed = 0u64;
    let mut failed_cases: BTreeSet<&str> = BTreeSet::new();
    let mut fonts_checked = 0u64;
    let mut bytes_checked = 0u64;
    let mut refs_checked = 0u64;
    let mut fields_traversed = 0u64;
    let mut refs_by_kind: BTreeMap<String, u64> = BTreeMap::new();
    let mut distinct: BTreeSet<u64> = BTreeSet::new();
    let mut distinct_nontrivial: BTreeSet<u64> = BTreeSet::new();
    let (mut variable, mut with_layout, mut with_composites) = (0u64, 0u64, 0u64);
    let mut untraversed: BTreeSet<String> = BTreeSet::new();
    let mut tables_seen: BTreeSet<String> = BTreeSet::new();
    let mut per_option_set: BTreeMap<&str, (u64, u64)> = BTreeMap::new();
    let mut samples: Vec<Value> = vec![];
    let mut largest: Option<(usize, Value)> = None;
    for (j, outcome) in outcomes.iter().enumerate() {
        let (c, o) = jobs[j];
        let (case, option_set) = (&cases[c], OPTION_SETS[o].0);
        let replay = json!({"case": case.name, "source": case.source, "option_set": option_set, "args": OPTION_SETS[o].1});
        let tally = per_option_set.entry(option_set).or_insert((0, 0));
        match outcome {
            Outcome::CompileFailed(_) => {
                compile_failed += 1;
                failed_cases.insert(&case.name);
                tally.1 += 1;
            }
            Outcome::NoOutput(what) => {
                rep.violation(&format!("no-output:{}", case.name), &format!("[{option_set}] {what}"), replay);
            }
            Outcome::Checked { hash, summary, issues, bytes } => {
                tally.0 += 1;
                fonts_checked += 1;
                bytes_checked += *bytes as u64;
                refs_checked += summary.refs_checked;
                fields_traversed += summary.fields_traversed;
                for (k, n) in &summary.refs_by_kind {
                    *refs_by_kind.entry(k.clone()).or_insert(0) += n;
                }
                untraversed.extend(summary.untraversed_tables.iter().cloned());
                tables_seen.extend(summary.tables.iter().cloned());
                distinct.insert(*hash);
                let layout = summary.has_gsub || summary.has_gpos;
                variable += summary.is_variable as u64;
                with_layout += layout as u64;
                with_composites += (summary.composite_glyphs > 0) as u64;
                if summary.is_variable || layout || summary.composite_glyphs > 0 {
                    distinct_nontrivial.insert(*hash);
                }
                let sample = json!({"case": case.name, "option_set": option_set, "bytes": bytes, "summary": summary});
                if samples.is_empty() || (samples.len() == 1 && j >= outcomes.len() / 2) {
                    samples.push(sample.clone());
                }
                if largest.as_ref().is_none_or(|(b, _)| bytes > b) {
                    largest = Some((*bytes, sample));
                }
                for issue in issues {
                    // one defect = one key: the option set is in the description, not the key
                    rep.violation(&format!("{}:{}", issue.code, case.name), &format!("[{option_set}] {}", issue.detail), replay.clone());
                }
            }
        }
    }
    samples.extend(largest.map(|(_, s)| s));
    if fonts_checked == 0 {
        vcore::machinery_error("no font was compiled successfully: nothing was checked");
    }

    rep.set("evaluations", fonts_checked);
    rep.set("distinct_nontrivial", distinct_nontrivial.len() as u64);
    rep.set(
        "rule",
        "every *.designspace, *.glyphs, *.ufo and *.glyphspackage under /repo/resources/testdata (UFOs and packages are not descended into) plus the generated designs, each compiled by the product binary under every listed option set; every exit-0 font is checked by otref::check_font; non-trivial = distinct font files (content hash) that are variable, or have GSUB/GPOS, or have composite glyphs",
    );
    rep.set("fixture_cases", n_fixtures as u64);
    rep.set("generated_cases", (cases.len() - n_fixtures) as u64);
    rep.set("option_sets", json!(OPTION_SETS[..n_option_sets].iter().map(|(n, a)| json!({"name": n, "args": a})).collect::<Vec<_>>()));
    rep.set("compiles", jobs.len() as u64);
    rep.set("compile_failures_not_judged", compile_failed);
    rep.set("cases_with_a_compile_failure", json!(failed_cases));
    rep.set("per_option_set_checked_failed", json!(per_option_set.iter().map(|(k, (a, b))| (k.to_string(), json!([a, b]))).collect::<BTreeMap<_, _>>()));
    rep.set("distinct_fonts", distinct.len() as u64);
    rep.set("fonts_variable", variable);
    rep.set("fonts_with_gsub_or_gpos", with_layout);
    rep.set("fonts_with_composites", with_composites);
    rep.set("bytes_checked", bytes_checked);
    rep.set("refs_checked", refs_checked);
    rep.set("refs_by_kind", json!(refs_by_kind));
    rep.set("fields_traversed", fields_traversed);
    rep.set("tables_seen", json!(tables_seen));
    rep.set("tables_without_reader", json!(untraversed));
    rep.set("samples", samples);
    rep.set("exhaustive", true);
    rep.assume("oracle: otref (hand-written sfnt/glyf/cmap/gvar/post readers, read-fonts typed tables for the rest, skrifa as second reader); a defect both read-fonts and the hand-written checks overlook is not seen");
    rep.assume("the product binary runs with RAYON_NUM_THREADS=4 (its free-running pool; schedules are C01/C02's subject)");
    rep.assume("compiles that exit non-zero are counted, not judged (C15 covers them)");
    if args.tier == Tier::Quick {
        rep.assume("quick tier: option sets default, flatten, skip-features only; thorough adds decompose, decompose-transformed, no-prefer-simple, keep-direction, no-production-names");
    }
    drop(generated_dir);
    rep.finish()
}
