//! C04 — advances and global metrics at each master location equal the master's.
//!
//! Bounded-exhaustive: every design of the sub-spaces listed in `spaces()` is written as
//! UFO + designspace (dgen), compiled in process with the real compiler (fcx) and judged with
//! the independent variation evaluator `otvar` (hmtx+HVAR, vmtx+VVAR, gvar phantom points,
//! MVAR) against values computed from the `Design` alone. Static default-location fields are
//! read with read-fonts typed tables (OS/2, hhea, vhea, post).
//!
//! Tolerances (derived, see `FracTol`):
//! * default location: exact (all region scalars are 0 there; hmtx/vmtx/OS2/hhea/post hold
//!   `ot_round(source value at the default master)`).
//! * other master locations: the compiler rounds each master's value first and rounds each
//!   delta once. With r ranging over the regions of the store, the reconstruction at a master
//!   location L is `value(L) + Σ_r s_r(L)·e_r` where `e_r` is the rounding error of delta r,
//!   |e_r| <= 0.5, and e_r = 0 when the unrounded delta is an integer. A delta is an integer
//!   unless a region with a fractional scalar at its master, or one with a fractional delta
//!   and scalar 1, precedes it. Hence |error| <= 0.5·Σ_r s_r(L)·frac(r); the check allows
//!   0.5 (the master's own region) + 0.5·Σ_{r not peaking at L} s_r(L)·frac(r) + 1e-6.
//!   After a rasteriser's own rounding that is the statement's "within 1 unit".
//! * phantom points: the compiler puts `ot_round(advance)` of each master into the phantom
//!   points, so the same bound holds against the source; against HVAR the sum of both (<= 1).
//! * HVAR/VVAR against the gvar phantom points at ANY location L (every master location of the
//!   design — in particular the masters a sparse glyph has no source in — and the midpoints
//!   between masters): both tables interpolate the same data, the glyph's rounded advances at its
//!   own source locations. Let I(L) be that interpolation with exact (unrounded) deltas. A table T
//!   stores each delta rounded once, d_r = δ_r + e_r with |e_r| <= 0.5 and e_r = 0 where δ_r is an
//!   integer, so T(L) = I(L) + Σ_r s_r(L)·e_r and
//!   |HVAR(L) − gvar(L)| <= 0.5·Σ_{r ∈ HVAR regions, frac} s_r(L) + 0.5·Σ_{t ∈ the glyph's gvar tuples, frac} s_t(L)
//!   (each side rounds its own deltas; "frac" = can carry a non-integer delta, rule above, decided
//!   per store / per glyph from the region list alone). The advance height from the phantom points
//!   is the difference of two independently rounded points (top and bottom), so the gvar term of
//!   the vertical bound is 1.0·Σ_t instead of 0.5·Σ_t. Plus 1e-6. The bound presumes that both
//!   tables use one interpolation of the sparse data; that is what "agree with the gvar phantom
//!   points at every master location" demands at a master the glyph is absent from.
//!
//! Routes: every case goes through designspace + UFO. The cases of the sparse spaces (`glyphs_twin`)
//! whose design the Glyphs format can express are ALSO compiled from their Glyphs 3 twin
//! (`dgen::Design::write_glyphs3`); that font gets the advance oracle only (the Glyphs writer does
//! not carry the fontinfo keys of the metric alphabet), with keys prefixed `glyphs3/` and separate
//! `g3_*` counters.

use dgen::{Axis, Design, Glyph, Layer, MasterKind, ot_round, plist::Plist, shapes};
use otvar::{ItemVarStore, VFont, ivs::region_scalar};
use serde::{Deserialize, Serialize};
use serde_json::{Value, json};
use std::collections::{BTreeMap, BTreeSet, HashSet};
use vcore::{Reporter, Tier};
use write_fonts::read::{FontRef, TableProvider, types::Tag};

const UPEM: f64 = 1000.0;
const EPS: f64 = 1e-6;

// ------------------------------------------------------------------ the metric alphabet

#[derive(Clone, Copy, PartialEq)]
enum Src {
    /// `Info` field of dgen (always written)
    XHeight,
    CapHeight,
    /// fontinfo.plist key written through `Info.extra`
    Key(&'static str),
}

struct MetricDef {
    tag: &'static str,
    field: &'static str,
    src: Src,
    base: f64,
    vertical: bool,
    /// fontinfo type admits a fractional value (norad IntegerOrFloat)
    float_ok: bool,
}

const fn md(tag: &'static str, field: &'static str, src: Src, base: f64, vertical: bool, float_ok: bool) -> MetricDef {
    MetricDef { tag, field, src, base, vertical, float_ok }
}

/// Every MVAR value tag fontc writes (fontir `GlobalMetric::mvar_tag`) with the fontinfo key
/// ufo2fontir reads it from and the static field the OpenType spec associates with the tag.
/// Base values are pairwise distinct so that a mixed-up field cannot go unnoticed.
static METRICS: &[MetricDef] = &[
    md("hasc", "OS/2.sTypoAscender", Src::Key("openTypeOS2TypoAscender"), 790.0, false, false),
    md("hdsc", "OS/2.sTypoDescender", Src::Key("openTypeOS2TypoDescender"), -210.0, false, false),
    md("hlgp", "OS/2.sTypoLineGap", Src::Key("openTypeOS2TypoLineGap"), 90.0, false, false),
    md("hcla", "OS/2.usWinAscent", Src::Key("openTypeOS2WinAscent"), 950.0, false, false),
    md("hcld", "OS/2.usWinDescent", Src::Key("openTypeOS2WinDescent"), 260.0, false, false),
    md("hcrs", "hhea.caretSlopeRise", Src::Key("openTypeHheaCaretSlopeRise"), 970.0, false, false),
    md("hcrn", "hhea.caretSlopeRun", Src::Key("openTypeHheaCaretSlopeRun"), 30.0, false, false),
    md("hcof", "hhea.caretOffset", Src::Key("openTypeHheaCaretOffset"), 20.0, false, false),
    md("xhgt", "OS/2.sxHeight", Src::XHeight, 480.0, false, true),
    md("cpht", "OS/2.sCapHeight", Src::CapHeight, 690.0, false, true),
    md("sbxs", "OS/2.ySubscriptXSize", Src::Key("openTypeOS2SubscriptXSize"), 640.0, false, false),
    md("sbys", "OS/2.ySubscriptYSize", Src::Key("openTypeOS2SubscriptYSize"), 610.0, false, false),
    md("sbxo", "OS/2.ySubscriptXOffset", Src::Key("openTypeOS2SubscriptXOffset"), 15.0, false, false),
    md("sbyo", "OS/2.ySubscriptYOffset", Src::Key("openTypeOS2SubscriptYOffset"), 80.0, false, false),
    md("spxs", "OS/2.ySuperscriptXSize", Src::Key("openTypeOS2SuperscriptXSize"), 630.0, false, false),
    md("spys", "OS/2.ySuperscriptYSize", Src::Key("openTypeOS2SuperscriptYSize"), 590.0, false, false),
    md("spxo", "OS/2.ySuperscriptXOffset", Src::Key("openTypeOS2SuperscriptXOffset"), 25.0, false, false),
    md("spyo", "OS/2.ySuperscriptYOffset", Src::Key("openTypeOS2SuperscriptYOffset"), 340.0, false, false),
    md("strs", "OS/2.yStrikeoutSize", Src::Key("openTypeOS2StrikeoutSize"), 55.0, false, false),
    md("stro", "OS/2.yStrikeoutPosition", Src::Key("openTypeOS2StrikeoutPosition"), 290.0, false, false),
    md("unds", "post.underlineThickness", Src::Key("postscriptUnderlineThickness"), 45.0, false, true),
    md("undo", "post.underlinePosition", Src::Key("postscriptUnderlinePosition"), -95.0, false, true),
    md("vasc", "vhea.ascender", Src::Key("openTypeVheaVertTypoAscender"), 510.0, true, false),
    md("vdsc", "vhea.descender", Src::Key("openTypeVheaVertTypoDescender"), -490.0, true, false),
    md("vlgp", "vhea.lineGap", Src::Key("openTypeVheaVertTypoLineGap"), 70.0, true, false),
    md("vcrs", "vhea.caretSlopeRise", Src::Key("openTypeVheaCaretSlopeRise"), 5.0, true, false),
    md("vcrn", "vhea.caretSlopeRun", Src::Key("openTypeVheaCaretSlopeRun"), 960.0, true, false),
    md("vcof", "vhea.caretOffset", Src::Key("openTypeVheaCaretOffset"), 35.0, true, false),
];

/// metrics without an MVAR tag: only their default-location value is judged
static STATIC_ONLY: &[(&str, &str, f64)] = &[
    ("hhea.ascender", "openTypeHheaAscender", 940.0),
    ("hhea.descender", "openTypeHheaDescender", -250.0),
    ("hhea.lineGap", "openTypeHheaLineGap", 10.0),
];

fn metric(tag: &str) -> &'static MetricDef {
    METRICS.iter().find(|m| m.tag == tag).unwrap_or_else(|| panic!("no metric {tag}"))
}

// ------------------------------------------------------------------ the case

#[derive(Debug, Clone, Serialize, Deserialize, PartialEq)]
struct GlyphSpec {
    name: String,
    /// per master: None = the glyph has no layer in that master
    adv: Vec<Option<f64>>,
    /// per master advance height (None = glif without a height attribute, i.e. 0)
    height: Vec<Option<f64>>,
    /// draw a rectangle whose right edge follows the advance
    contour: bool,
}

#[derive(Debug, Clone, Serialize, Deserialize, PartialEq)]
struct Case {
    space: String,
    n_axes: usize,
    /// master locations on the grid {-1, -0.5, 0, 0.5, 1} per axis (the intended normalized location)
    locs: Vec<Vec<f64>>,
    /// masters that are glyph-only layers of the default master's UFO
    layer_masters: Vec<usize>,
    /// axis 0 gets a non-linear user->design map (avar)
    mapped: bool,
    glyphs: Vec<GlyphSpec>,
    vertical: bool,
    /// per-master values of metrics that deviate from their base (tag -> values)
    metrics: BTreeMap<String, Vec<f64>>,
    /// write every metric key explicitly (false: only ascender/descender/xHeight/capHeight/italicAngle)
    explicit: bool,
    /// italic angle per master
    italic: Vec<f64>,
    /// leave out the hhea caret rise/run keys so that the italic angle drives them
    caret_from_italic: bool,
}

impl Case {
    fn new(space: &str, locs: Vec<Vec<f64>>) -> Case {
        let n = locs.len();
        Case {
            space: space.into(),
            n_axes: locs[0].len(),
            locs,
            layer_masters: vec![],
            mapped: false,
            glyphs: vec![],
            vertical: false,
            metrics: BTreeMap::new(),
            explicit: true,
            italic: vec![0.0; n],
            caret_from_italic: false,
        }
    }
    fn nm(&self) -> usize {
        self.locs.len()
    }
    fn default_master(&self) -> usize {
        self.locs.iter().position(|l| l.iter().all(|v| *v == 0.0)).expect("a master at the origin")
    }
    fn is_layer(&self, m: usize) -> bool {
        self.layer_masters.contains(&m)
    }
    /// The value the source gives for `def` at master `m`; None = not fixed by the source
    /// (fallback formula of the compiler).
    fn src_value(&self, def: &MetricDef, m: usize) -> Option<f64> {
        if let Some(v) = self.metrics.get(def.tag) {
            return Some(v[m]);
        }
        if self.caret_from_italic && def.tag == "hcrs" {
            return Some(UPEM);
        }
        if self.caret_from_italic && def.tag == "hcrn" {
            // ufo2ft openTypeHheaCaretSlopeRunFallback: tan(-italicAngle) * unitsPerEm, 0 for an upright master
            let a = self.italic[m];
            return Some(if a == 0.0 { 0.0 } else { (-a).to_radians().tan() * UPEM });
        }
        if self.explicit || matches!(def.src, Src::XHeight | Src::CapHeight) {
            return Some(def.base);
        }
        None
    }
    /// nothing the fallback formulas depend on varies across the full masters
    fn fallback_inputs_constant(&self) -> bool {
        let full: Vec<usize> = (0..self.nm()).filter(|m| !self.is_layer(*m)).collect();
        let c = |f: &dyn Fn(usize) -> f64| full.iter().all(|m| f(*m) == f(full[0]));
        c(&|m| self.italic[m]) && self.metrics.values().all(|v| full.iter().all(|m| v[*m] == v[full[0]]))
    }
}

fn grid_user(v: f64, axis: usize) -> f64 {
    // axis 0: 100 .. 400 .. 900; axis 1: 50 .. 100 .. 200
    let (lo, df, hi) = if axis == 0 { (100.0, 400.0, 900.0) } else { (50.0, 100.0, 200.0) };
    if v < 0.0 { df + v * (df - lo) } else { df + v * (hi - df) }
}

fn build(case: &Case) -> Design {
    let names = [("wght", "Weight"), ("wdth", "Width")];
    let mut axes = vec![];
    for a in 0..case.n_axes {
        let has_neg = case.locs.iter().any(|l| l[a] < 0.0);
        let has_pos = case.locs.iter().any(|l| l[a] > 0.0);
        let mut ax = Axis::new(
            names[a].0,
            names[a].1,
            if has_neg { grid_user(-1.0, a) } else { grid_user(0.0, a) },
            grid_user(0.0, a),
            if has_pos { grid_user(1.0, a) } else { grid_user(0.0, a) },
        );
        if case.mapped && a == 0 {
            // design = piecewise linear in user; grid point 0.5 (design 150) is user 587.5 = 0.375 normalized
            let mut map = vec![];
            if has_neg {
                map.push((100.0, 10.0));
                map.push((250.0, 70.0));
            }
            map.push((400.0, 100.0));
            if has_pos {
                map.push((700.0, 180.0));
                map.push((900.0, 200.0));
            }
            ax.map = map;
        }
        axes.push(ax);
    }
    let design_loc = |l: &Vec<f64>| -> Vec<f64> {
        l.iter()
            .enumerate()
            .map(|(a, v)| {
                if case.mapped && a == 0 {
                    // design grid: -1 -> 10, 0 -> 100, 0.5 -> 150, 1 -> 200
                    if *v < 0.0 { 100.0 + v * 90.0 } else { 100.0 + v * 100.0 }
                } else {
                    grid_user(*v, a)
                }
            })
            .collect()
    };
    let full: Vec<usize> = (0..case.nm()).filter(|m| !case.is_layer(*m)).collect();
    // dgen wants full masters first in `skeleton`, layer masters are appended; keep the case's master
    // indices by building all as full and then switching the kind.
    let mut d = Design::skeleton("C04", axes, case.locs.iter().map(design_loc).collect());
    let dm = d.default_master;
    for m in 0..case.nm() {
        if case.is_layer(m) {
            d.masters[m].kind = MasterKind::LayerOf(dm);
        }
    }
    for &m in &full {
        let info = &mut d.masters[m].info;
        info.ascender = 800.0;
        info.descender = -200.0;
        info.italic_angle = case.italic[m];
        info.x_height = case.src_value(metric("xhgt"), m).unwrap();
        info.cap_height = case.src_value(metric("cpht"), m).unwrap();
        for def in METRICS {
            let Src::Key(key) = def.src else { continue };
            if def.vertical && !case.vertical {
                continue;
            }
            if case.caret_from_italic && (def.tag == "hcrs" || def.tag == "hcrn") {
                continue;
            }
            let explicit = case.explicit || case.metrics.contains_key(def.tag) || (def.vertical && case.vertical);
            if !explicit {
                continue;
            }
            let v = case.metrics.get(def.tag).map(|v| v[m]).unwrap_or(def.base);
            info.extra.push((key.to_string(), Plist::num(v)));
        }
        if case.explicit {
            for (_, key, v) in STATIC_ONLY {
                info.extra.push((key.to_string(), Plist::num(*v)));
            }
        }
    }
    for (gi, gs) in case.glyphs.iter().enumerate() {
        let cps: Vec<u32> = if gs.name == ".notdef" { vec![] } else { vec![0x41 + gi as u32] };
        let mut g = Glyph::new(&gs.name, &cps);
        for m in 0..case.nm() {
            let Some(adv) = gs.adv[m] else { continue };
            let mut l = Layer { advance: adv, height: gs.height[m], ..Default::default() };
            if gs.contour {
                l.contours.push(shapes::rect(50.0, 0.0, 80.0 + (adv / 4.0).floor(), 700.0));
            }
            g.layers.insert(m, l);
        }
        d.glyphs.push(g);
    }
    d
}

// ------------------------------------------------------------------ tolerance

/// Which regions of a store can carry a fractional (hence rounded with error) delta, decided
/// from the region list alone (module doc).
struct FracTol {
    regions: Vec<Vec<(f64, f64, f64)>>,
    peaks: Vec<Vec<f64>>,
    frac: Vec<bool>,
}

impl FracTol {
    fn none() -> FracTol {
        FracTol { regions: vec![], peaks: vec![], frac: vec![] }
    }
    fn new(store: &ItemVarStore) -> FracTol {
        FracTol::from_regions(store.regions.clone())
    }
    /// the regions of a glyph's gvar tuples (implied region of a peak tuple: min(peak,0) .. max(peak,0))
    fn of_tuples(ts: &[otvar::TupleVar]) -> FracTol {
        FracTol::from_regions(
            ts.iter()
                .map(|t| {
                    t.peak
                        .iter()
                        .enumerate()
                        .map(|(a, &p)| match &t.intermediate {
                            Some((st, en)) => (st[a], p, en[a]),
                            None => (p.min(0.0), p, p.max(0.0)),
                        })
                        .collect()
                })
                .collect(),
        )
    }
    /// Σ of the scalars at `coords` of the regions that can carry a fractional delta
    fn sum_frac(&self, coords: &[f64]) -> f64 {
        0.0 + (0..self.regions.len()).filter(|r| self.frac[*r]).map(|r| region_scalar(coords, &self.regions[r])).sum::<f64>()
    }
    fn from_regions(regions: Vec<Vec<(f64, f64, f64)>>) -> FracTol {
        let peaks: Vec<Vec<f64>> = regions.iter().map(|r| r.iter().map(|a| a.1).collect()).collect();
        let n = regions.len();
        let mut frac = vec![false; n];
        loop {
            let mut changed = false;
            for r in 0..n {
                if frac[r] {
                    continue;
                }
                for q in 0..n {
                    if q == r || peaks[q] == peaks[r] {
                        continue;
                    }
                    let s = region_scalar(&peaks[r], &regions[q]);
                    if (s > 1e-9 && s < 1.0 - 1e-9) || (s >= 1.0 - 1e-9 && frac[q]) {
                        frac[r] = true;
                        changed = true;
                        break;
                    }
                }
            }
            if !changed {
                break;
            }
        }
        FracTol { regions, peaks, frac }
    }
    fn any_fractional(&self) -> bool {
        self.frac.iter().any(|f| *f)
    }
    /// allowed |reconstruction - rounded master value| at master location `coords`
    fn tol(&self, coords: &[f64]) -> f64 {
        let mut t = 0.5;
        for r in 0..self.regions.len() {
            if !self.frac[r] {
                continue;
            }
            let same = self.peaks[r].iter().enumerate().all(|(i, p)| *p == coords.get(i).copied().unwrap_or(0.0));
            if same {
                continue;
            }
            t += 0.5 * region_scalar(coords, &self.regions[r]);
        }
        t + EPS
    }
}

fn table_store(font: &FontRef, tag: &[u8; 4], store_offset_at: usize, offset32: bool) -> Option<ItemVarStore> {
    let data = font.table_data(Tag::new(tag))?;
    let b = data.as_bytes();
    let off = if offset32 {
        u32::from_be_bytes(b.get(store_offset_at..store_offset_at + 4)?.try_into().ok()?) as usize
    } else {
        u16::from_be_bytes(b.get(store_offset_at..store_offset_at + 2)?.try_into().ok()?) as usize
    };
    if off == 0 {
        return None;
    }
    ItemVarStore::parse(b.get(off..)?).ok()
}

// ------------------------------------------------------------------ judging

#[derive(Debug, Clone, Default, Serialize, Deserialize)]
struct Stats {
    evaluations: u64,
    compiled: u64,
    compile_errors: u64,
    compile_panics: u64,
    // fonts
    fonts_hvar_direct: u64,
    fonts_hvar_indirect: u64,
    fonts_hvar_indirect_single_model: u64,
    fonts_no_hvar: u64,
    fonts_two_or_more_advance_submodels: u64,
    fonts_three_or_more_advance_submodels: u64,
    fonts_with_sparse_glyph: u64,
    fonts_with_default_only_glyph: u64,
    fonts_with_layer_master: u64,
    fonts_with_avar: u64,
    fonts_vvar: u64,
    fonts_vvar_indirect: u64,
    fonts_vertical: u64,
    fonts_notdef_absent_in_source: u64,
    fonts_notdef_default_only: u64,
    fonts_notdef_in_every_master: u64,
    fonts_mvar: u64,
    fonts_mvar_1_record: u64,
    fonts_mvar_2_records: u64,
    fonts_mvar_3_or_more_records: u64,
    fonts_with_fractional_region: u64,
    fonts_two_axes: u64,
    fonts_with_intermediate_master: u64,
    // comparisons
    advance_checks_default: u64,
    advance_checks_master: u64,
    advance_checks_master_nonzero_delta: u64,
    advance_checks_sparse_glyph: u64,
    advance_half_rounded: u64,
    phantom_checks: u64,
    phantom_exact: u64,
    vadvance_checks_master: u64,
    vadvance_checks_master_nonzero_delta: u64,
    // HVAR/VVAR against the gvar phantom points (glyph x location comparisons)
    fonts_with_glyph_absent_from_full_nondefault_master: u64,
    fonts_with_master_no_glyph_has_a_source_in: u64,
    agree_checks_own_master: u64,
    agree_checks_absent_master: u64,
    agree_checks_absent_master_varying_glyph: u64,
    agree_checks_absent_master_nonzero_delta: u64,
    agree_checks_off_master: u64,
    agree_checks_off_master_nonzero_delta: u64,
    agree_checks_synth_notdef: u64,
    agree_checks_with_rounding_allowance: u64,
    vagree_checks_own_master: u64,
    vagree_checks_absent_master: u64,
    vagree_checks_absent_master_nonzero_delta: u64,
    vagree_checks_off_master: u64,
    vagree_checks_off_master_nonzero_delta: u64,
    // the Glyphs 3 twin (advance oracle only)
    g3_unrepresentable: u64,
    g3_fonts: u64,
    g3_compile_errors: u64,
    g3_compile_panics: u64,
    g3_fonts_with_sparse_glyph: u64,
    g3_fonts_with_layer_master: u64,
    g3_fonts_hvar_indirect: u64,
    g3_fonts_vvar: u64,
    g3_advance_checks_default: u64,
    g3_advance_checks_master: u64,
    g3_advance_checks_master_nonzero_delta: u64,
    g3_advance_checks_sparse_glyph: u64,
    g3_phantom_checks: u64,
    g3_vadvance_checks_master: u64,
    g3_agree_checks_own_master: u64,
    g3_agree_checks_absent_master: u64,
    g3_agree_checks_absent_master_nonzero_delta: u64,
    g3_agree_checks_off_master: u64,
    g3_vagree_checks_absent_master: u64,
    g3_vagree_checks_off_master: u64,
    mvar_checks_master: u64,
    mvar_checks_master_nonzero_delta: u64,
    mvar_absent_tag_constant_source: u64,
    static_default_checks: u64,
    caret_from_italic_checks: u64,
    fallback_constant_checks: u64,
    synth_notdef_varies: u64,
    fallback_constant_cases: u64,
    second_opinion_cases: u64,
    second_opinion_glyph_checks: u64,
    second_opinion_mvar_checks: u64,
    second_opinion_disagreements: u64,
    mvar_tags_outside_table: u64,
    nontrivial: u64,
}

fn add_stats(a: &mut Stats, b: &Stats) {
    let mut va = serde_json::to_value(&*a).unwrap();
    vcore::merge_counts(&mut va, &serde_json::to_value(b).unwrap());
    *a = serde_json::from_value(va).unwrap();
}

struct Verdict {
    stats: Stats,
    viol: Vec<(String, String)>,
    obs: Value,
    nontrivial: bool,
}

fn static_value(font: &FontRef, field: &str) -> Option<f64> {
    let os2 = font.os2().ok();
    let hhea = font.hhea().ok();
    let vhea = font.vhea().ok();
    let post = font.post().ok();
    Some(match field {
        "OS/2.sTypoAscender" => os2?.s_typo_ascender() as f64,
        "OS/2.sTypoDescender" => os2?.s_typo_descender() as f64,
        "OS/2.sTypoLineGap" => os2?.s_typo_line_gap() as f64,
        "OS/2.usWinAscent" => os2?.us_win_ascent() as f64,
        "OS/2.usWinDescent" => os2?.us_win_descent() as f64,
        "OS/2.sxHeight" => os2?.sx_height()? as f64,
        "OS/2.sCapHeight" => os2?.s_cap_height()? as f64,
        "OS/2.ySubscriptXSize" => os2?.y_subscript_x_size() as f64,
        "OS/2.ySubscriptYSize" => os2?.y_subscript_y_size() as f64,
        "OS/2.ySubscriptXOffset" => os2?.y_subscript_x_offset() as f64,
        "OS/2.ySubscriptYOffset" => os2?.y_subscript_y_offset() as f64,
        "OS/2.ySuperscriptXSize" => os2?.y_superscript_x_size() as f64,
        "OS/2.ySuperscriptYSize" => os2?.y_superscript_y_size() as f64,
        "OS/2.ySuperscriptXOffset" => os2?.y_superscript_x_offset() as f64,
        "OS/2.ySuperscriptYOffset" => os2?.y_superscript_y_offset() as f64,
        "OS/2.yStrikeoutSize" => os2?.y_strikeout_size() as f64,
        "OS/2.yStrikeoutPosition" => os2?.y_strikeout_position() as f64,
        "hhea.ascender" => hhea?.ascender().to_i16() as f64,
        "hhea.descender" => hhea?.descender().to_i16() as f64,
        "hhea.lineGap" => hhea?.line_gap().to_i16() as f64,
        "hhea.caretSlopeRise" => hhea?.caret_slope_rise() as f64,
        "hhea.caretSlopeRun" => hhea?.caret_slope_run() as f64,
        "hhea.caretOffset" => hhea?.caret_offset() as f64,
        "vhea.ascender" => vhea?.ascender().to_i16() as f64,
        "vhea.descender" => vhea?.descender().to_i16() as f64,
        "vhea.lineGap" => vhea?.line_gap().to_i16() as f64,
        "vhea.caretSlopeRise" => vhea?.caret_slope_rise() as f64,
        "vhea.caretSlopeRun" => vhea?.caret_slope_run() as f64,
        "vhea.caretOffset" => vhea?.caret_offset() as f64,
        "post.underlineThickness" => post?.underline_thickness().to_i16() as f64,
        "post.underlinePosition" => post?.underline_position().to_i16() as f64,
        "post.italicAngle" => post?.italic_angle().to_f64(),
        _ => return None,
    })
}

/// How the design reaches the compiler.
#[derive(Clone, Copy, Debug, PartialEq, Eq)]
enum Route {
    /// designspace + UFOs: the whole oracle
    Ufo,
    /// the Glyphs 3 twin: advances only
    Glyphs3,
}

/// The cases that are also compiled from their Glyphs 3 twin: the spaces about sparse glyphs.
fn glyphs_twin(case: &Case) -> bool {
    ["subsets/", "sparse/", "layer/", "vert-sparse"].iter().any(|p| case.space.starts_with(p))
}

/// Master locations of the design, then the midpoints of every pair of them that are not master
/// locations themselves (multiples of 1/8: exact F2Dot14 values).
fn eval_locations(coords: &[Vec<f64>]) -> Vec<Vec<f64>> {
    let mut out: Vec<Vec<f64>> = coords.to_vec();
    for i in 0..coords.len() {
        for j in i + 1..coords.len() {
            let mid: Vec<f64> = coords[i].iter().zip(&coords[j]).map(|(a, b)| (a + b) / 2.0).collect();
            if !out.contains(&mid) {
                out.push(mid);
            }
        }
    }
    out
}

struct AgreeCtx<'a> {
    vf: &'a VFont<'a>,
    /// the master locations (indices < nm), then the off-master locations
    locs: &'a [Vec<f64>],
    nm: usize,
    dm: usize,
    htol: &'a FracTol,
    vtol: &'a FracTol,
    vertical: bool,
}

/// hmtx+HVAR (vmtx+VVAR) of one glyph against its gvar phantom points at every location of `cx.locs`
/// (tolerance: module doc). `own(m)`: the glyph has a source of its own at master m; `label`: full /
/// sparse / default-only / synth.
fn agree(cx: &AgreeCtx, gid: u16, name: &str, own: &dyn Fn(usize) -> bool, label: &str, st: &mut Stats, viol: &mut Vec<(String, String)>) {
    let vf = cx.vf;
    let gtol = match vf.glyph_tuples(gid) {
        Ok(ts) => FracTol::of_tuples(&ts),
        Err(e) => {
            viol.push(("glyph-undecodable".into(), format!("glyph {name}: gvar tuples: {e}")));
            return;
        }
    };
    let varying = (0..cx.nm).filter(|m| own(*m)).count() >= 2;
    let h0 = vf.h_advance_default(gid);
    let v0 = vf.v_advance_default(gid);
    for (li, loc) in cx.locs.iter().enumerate() {
        let wher = if li >= cx.nm {
            "off-master"
        } else if own(li) {
            "own-master"
        } else {
            "absent-master"
        };
        let ig = match vf.glyph_at(gid, loc) {
            Ok(ig) => ig,
            Err(e) => {
                viol.push(("glyph-undecodable".into(), format!("glyph {name} at {loc:?}: {e}")));
                continue;
            }
        };
        let h = vf.h_advance_at(gid, loc);
        let p = ig.advance_from_phantoms;
        let (sh, sg) = (cx.htol.sum_frac(loc), gtol.sum_frac(loc));
        let tol = if li == cx.dm { EPS } else { 0.5 * sh + 0.5 * sg + EPS };
        if sh + sg > 0.0 {
            st.agree_checks_with_rounding_allowance += 1;
        }
        let moved = (h - h0).abs() > EPS || (p - h0).abs() > EPS;
        if label == "synth" {
            st.agree_checks_synth_notdef += 1;
        } else {
            match wher {
                "own-master" => st.agree_checks_own_master += 1,
                "absent-master" => {
                    st.agree_checks_absent_master += 1;
                    st.agree_checks_absent_master_varying_glyph += varying as u64;
                    st.agree_checks_absent_master_nonzero_delta += moved as u64;
                }
                _ => {
                    st.agree_checks_off_master += 1;
                    st.agree_checks_off_master_nonzero_delta += moved as u64;
                }
            }
        }
        if (h - p).abs() > tol {
            viol.push((
                format!("hvar-gvar-disagree:h:{wher}:{label}"),
                format!(
                    "glyph {name} (gid {gid}, {label}) at {loc:?} ({wher}): hmtx+HVAR = {h}, the gvar phantom points give {p} (allowed {tol:.3} = 0.5*{sh} + 0.5*{sg}); hmtx {h0}, HVAR var index {:?}, gvar tuple scalars {:?}",
                    vf.h_advance_var_index(gid),
                    ig.tuple_scalars
                ),
            ));
        }
        if !cx.vertical {
            continue;
        }
        let (Some(v), Some(v0)) = (vf.v_advance_at(gid, loc), v0) else { continue };
        let pv = ig.v_advance_from_phantoms;
        let sv = cx.vtol.sum_frac(loc);
        // the advance height from the phantom points is top - bottom: two rounded points per tuple
        let tol = if li == cx.dm { EPS } else { 0.5 * sv + 1.0 * sg + EPS };
        let moved = (v - v0).abs() > EPS || (pv - v0).abs() > EPS;
        if label != "synth" {
            match wher {
                "own-master" => st.vagree_checks_own_master += 1,
                "absent-master" => {
                    st.vagree_checks_absent_master += 1;
                    st.vagree_checks_absent_master_nonzero_delta += moved as u64;
                }
                _ => {
                    st.vagree_checks_off_master += 1;
                    st.vagree_checks_off_master_nonzero_delta += moved as u64;
                }
            }
        }
        if (v - pv).abs() > tol {
            viol.push((
                format!("hvar-gvar-disagree:v:{wher}:{label}"),
                format!(
                    "glyph {name} (gid {gid}, {label}) at {loc:?} ({wher}): vmtx+VVAR = {v}, the gvar phantom points give {pv} (allowed {tol:.3} = 0.5*{sv} + 1.0*{sg}); vmtx {v0}, gvar tuple scalars {:?}",
                    ig.tuple_scalars
                ),
            ));
        }
    }
}

fn judge(case: &Case, d: &Design, res: &Result<Vec<u8>, fcx::Failure>, second: bool, route: Route) -> Verdict {
    let mut st = Stats { evaluations: 1, ..Default::default() };
    let mut viol: Vec<(String, String)> = vec![];
    let mut nontrivial = false;
    let bytes = match res {
        Ok(b) => b,
        Err(fcx::Failure::Error(e)) => {
            st.compile_errors = 1;
            return Verdict { stats: st, viol, obs: json!({"compile_error": e}), nontrivial };
        }
        Err(fcx::Failure::Panic(p)) => {
            st.compile_panics = 1;
            let head: String = p.chars().take(60).collect::<String>().replace(|c: char| !c.is_ascii_alphanumeric(), "-");
            viol.push((format!("compiler-panic:{head}"), format!("the compiler panicked on a valid design: {p}")));
            return Verdict { stats: st, viol, obs: json!({"panic": p}), nontrivial };
        }
    };
    st.compiled = 1;
    let vf = match VFont::new(bytes) {
        Ok(v) => v,
        Err(e) => {
            viol.push(("font-unreadable".into(), format!("otvar cannot decode the font: {e}")));
            return Verdict { stats: st, viol, obs: json!({"otvar_error": e}), nontrivial };
        }
    };
    let font = FontRef::new(bytes).expect("otvar read it");
    let dm = case.default_master();
    let nm = case.nm();

    // ---- master coordinates through the font's own fvar/avar
    let mut coords: Vec<Vec<f64>> = vec![];
    for m in 0..nm {
        let user: Vec<(String, f64)> = d.axes.iter().zip(d.master_user(m)).map(|(a, u)| (a.tag.clone(), u)).collect();
        let c = vf.normalize(&user);
        let want = &case.locs[m];
        if c.len() != want.len() || c.iter().zip(want).any(|(a, b)| (a - b).abs() > 1e-9) {
            viol.push((
                "oracle-precondition:master-normalises-off-grid".into(),
                format!("master {m} at user {user:?} normalises to {c:?} through fvar/avar, the design says {want:?}"),
            ));
            return Verdict { stats: st, viol, obs: json!({"coords": c, "want": want}), nontrivial };
        }
        coords.push(c);
    }

    // ---- font-level facts
    let hinfo = vf.hvar_info();
    let vinfo = vf.vvar_info();
    let hmode = if !hinfo.present { "no-hvar" } else if hinfo.indirect { "indirect" } else { "direct" };
    let vmode = if !vinfo.present { "no-vvar" } else if vinfo.indirect { "indirect" } else { "direct" };
    let global_set: BTreeSet<usize> = (0..nm).filter(|m| !case.is_layer(*m)).collect();
    let mut models: BTreeSet<BTreeSet<usize>> = BTreeSet::new();
    models.insert(global_set.clone());
    let mut any_sparse = false;
    let mut any_default_only = false;
    for g in &case.glyphs {
        let set: BTreeSet<usize> = (0..nm).filter(|m| g.adv[*m].is_some()).collect();
        if set != global_set {
            any_sparse = true;
        }
        if set.len() == 1 {
            any_default_only = true;
        } else {
            models.insert(set);
        }
    }
    let notdef = case.glyphs.iter().find(|g| g.name == ".notdef");
    match notdef {
        None => st.fonts_notdef_absent_in_source = 1,
        Some(g) if g.adv.iter().filter(|a| a.is_some()).count() == 1 => st.fonts_notdef_default_only = 1,
        Some(_) => st.fonts_notdef_in_every_master = 1,
    }
    match hmode {
        "direct" => st.fonts_hvar_direct = 1,
        "indirect" => {
            st.fonts_hvar_indirect = 1;
            if models.len() == 1 {
                st.fonts_hvar_indirect_single_model = 1;
            }
        }
        _ => st.fonts_no_hvar = 1,
    }
    st.fonts_two_or_more_advance_submodels = (models.len() >= 2) as u64;
    st.fonts_three_or_more_advance_submodels = (models.len() >= 3) as u64;
    st.fonts_with_sparse_glyph = any_sparse as u64;
    st.fonts_with_default_only_glyph = any_default_only as u64;
    st.fonts_with_layer_master = (!case.layer_masters.is_empty()) as u64;
    st.fonts_with_avar = vf.axes_data().avar.is_some() as u64;
    st.fonts_vvar = vinfo.present as u64;
    st.fonts_vvar_indirect = (vinfo.present && vinfo.indirect) as u64;
    st.fonts_vertical = case.vertical as u64;
    st.fonts_two_axes = (case.n_axes == 2) as u64;
    st.fonts_with_intermediate_master = case.locs.iter().any(|l| l.iter().any(|v| v.fract() != 0.0)) as u64;
    let mvar_tags = vf.mvar_tags();
    st.fonts_mvar = (!mvar_tags.is_empty()) as u64;
    match mvar_tags.len() {
        0 => {}
        1 => st.fonts_mvar_1_record = 1,
        2 => st.fonts_mvar_2_records = 1,
        _ => st.fonts_mvar_3_or_more_records = 1,
    }
    let htol = vf.hvar_store().map(FracTol::new).unwrap_or_else(FracTol::none);
    let vtol = table_store(&font, b"VVAR", 4, true).map(|s| FracTol::new(&s)).unwrap_or_else(FracTol::none);
    let mtol = vf.mvar_store().map(FracTol::new).unwrap_or_else(FracTol::none);
    if htol.any_fractional() || vtol.any_fractional() || mtol.any_fractional() {
        st.fonts_with_fractional_region = 1;
    }

    let names = vf.glyph_names();
    let mut obs_adv = vec![];
    // Glyphs: vertical metrics are built when a layer has a vertWidth; a layer without one gets the
    // compiler's default height (typo ascender - descender), which the source does not state
    let vertical = case.vertical && (route == Route::Ufo || case.glyphs.iter().any(|g| g.height.iter().any(|h| h.is_some())));
    let locs = eval_locations(&coords);
    {
        let full_nondefault: Vec<usize> = (0..nm).filter(|m| *m != dm && !case.is_layer(*m)).collect();
        if case.glyphs.iter().any(|g| g.adv.iter().filter(|a| a.is_some()).count() >= 2 && full_nondefault.iter().any(|m| g.adv[*m].is_none())) {
            st.fonts_with_glyph_absent_from_full_nondefault_master = 1;
        }
        if (0..nm).any(|m| case.glyphs.iter().all(|g| g.adv[m].is_none())) {
            st.fonts_with_master_no_glyph_has_a_source_in = 1;
        }
    }

    // ---- advances
    let acx = AgreeCtx { vf: &vf, locs: &locs, nm, dm, htol: &htol, vtol: &vtol, vertical };
    for g in &case.glyphs {
        let Some(gid) = names.iter().position(|n| *n == g.name).map(|i| i as u16) else {
            viol.push(("glyph-missing".into(), format!("glyph {} of the design is not in the font (post names {names:?})", g.name)));
            continue;
        };
        let defined: Vec<usize> = (0..nm).filter(|m| g.adv[*m].is_some()).collect();
        let sparse = defined.iter().copied().collect::<BTreeSet<_>>() != global_set;
        let sp = if sparse { "sparse" } else { "full" };
        let def_expected = ot_round(g.adv[dm].expect("default layer"));
        for &m in &defined {
            let expected = ot_round(g.adv[m].unwrap());
            let got = vf.h_advance_at(gid, &coords[m]);
            let ph = vf.glyph_at(gid, &coords[m]);
            if g.adv[m].unwrap().fract() != 0.0 {
                st.advance_half_rounded += 1;
            }
            if m == dm {
                st.advance_checks_default += 1;
                if got != expected {
                    viol.push((
                        "default-metric-not-exact:hmtx.advanceWidth".into(),
                        format!("glyph {} (gid {gid}): hmtx advance {got}, the default master says {} -> {expected}", g.name, g.adv[m].unwrap()),
                    ));
                }
            } else {
                st.advance_checks_master += 1;
                if sparse {
                    st.advance_checks_sparse_glyph += 1;
                }
                if expected != def_expected {
                    st.advance_checks_master_nonzero_delta += 1;
                    nontrivial = true;
                }
                let tol = htol.tol(&coords[m]);
                if (got - expected).abs() > tol {
                    viol.push((
                        format!("advance-mismatch:{hmode}:{sp}"),
                        format!(
                            "glyph {} (gid {gid}) at master {m} {:?}: hmtx+HVAR = {got}, the master's advance {} rounds to {expected} (allowed {tol:.3}); HVAR {hmode}, var index {:?}",
                            g.name,
                            coords[m],
                            g.adv[m].unwrap(),
                            vf.h_advance_var_index(gid)
                        ),
                    ));
                    obs_adv.push(json!({"glyph": g.name, "gid": gid, "master": m, "coords": coords[m], "hvar": got, "expected": expected}));
                }
            }
            match ph {
                Ok(ig) => {
                    st.phantom_checks += 1;
                    let pa = ig.advance_from_phantoms;
                    if pa == expected {
                        st.phantom_exact += 1;
                    }
                    let tol = if m == dm { EPS } else { htol.tol(&coords[m]) * 2.0 };
                    if (pa - got).abs() > tol {
                        viol.push((
                            format!("phantom-advance-mismatch:h:{sp}"),
                            format!(
                                "glyph {} (gid {gid}) at master {m} {:?}: advance from the gvar phantom points {pa}, hmtx+HVAR {got}, source {expected}",
                                g.name, coords[m]
                            ),
                        ));
                    }
                    if vertical {
                        let vexp = ot_round(g.height[m].unwrap_or(0.0));
                        let vph = ig.v_advance_from_phantoms;
                        if let Some(vgot) = vf.v_advance_at(gid, &coords[m]) {
                            let tol = if m == dm { EPS } else { vtol.tol(&coords[m]) * 2.0 };
                            if (vph - vgot).abs() > tol {
                                viol.push((
                                    format!("phantom-advance-mismatch:v:{sp}"),
                                    format!(
                                        "glyph {} (gid {gid}) at master {m} {:?}: advance height from the gvar phantom points {vph}, vmtx+VVAR {vgot}, source {vexp}",
                                        g.name, coords[m]
                                    ),
                                ));
                            }
                        }
                    }
                }
                Err(e) => viol.push(("glyph-undecodable".into(), format!("glyph {} at master {m}: {e}", g.name))),
            }
            if vertical && (route == Route::Ufo || (g.height[m].is_some() && g.height[dm].is_some())) {
                let vexp = ot_round(g.height[m].unwrap_or(0.0));
                let vdef = ot_round(g.height[dm].unwrap_or(0.0));
                match vf.v_advance_at(gid, &coords[m]) {
                    None => viol.push((
                        "vertical-tables-missing".into(),
                        "the source sets the three vhea keys but the font has no vhea/vmtx".into(),
                    )),
                    Some(vgot) => {
                        if m == dm {
                            st.advance_checks_default += 1;
                            if vgot != vexp {
                                viol.push((
                                    "default-metric-not-exact:vmtx.advanceHeight".into(),
                                    format!("glyph {} (gid {gid}): vmtx advance {vgot}, the default master's height {:?} -> {vexp}", g.name, g.height[m]),
                                ));
                            }
                        } else {
                            st.vadvance_checks_master += 1;
                            if vexp != vdef {
                                st.vadvance_checks_master_nonzero_delta += 1;
                                nontrivial = true;
                                if !vinfo.present {
                                    // falls out of the comparison below as well; named separately for the key
                                }
                            }
                            let tol = vtol.tol(&coords[m]);
                            if (vgot - vexp).abs() > tol {
                                viol.push((
                                    format!("vadvance-mismatch:{vmode}:{sp}"),
                                    format!(
                                        "glyph {} (gid {gid}) at master {m} {:?}: vmtx+VVAR = {vgot}, the master's height {:?} rounds to {vexp} (allowed {tol:.3}); VVAR {vmode}",
                                        g.name, coords[m], g.height[m]
                                    ),
                                ));
                            }
                        }
                    }
                }
            }
        }
        let label = if defined.len() == 1 { "default-only" } else { sp };
        agree(&acx, gid, &g.name, &|m| g.adv[m].is_some(), label, &mut st, &mut viol);
    }
    // the synthesised .notdef has one definition only; a varying advance is recorded, not judged against a
    // source value; HVAR/VVAR and the phantom points must still tell the same story
    if notdef.is_none() && names.first().map(|s| s.as_str()) == Some(".notdef") {
        let a0 = vf.h_advance_default(0);
        if (0..nm).any(|m| (vf.h_advance_at(0, &coords[m]) - a0).abs() > EPS) {
            st.synth_notdef_varies = 1;
        }
        agree(&acx, 0, ".notdef", &|_| false, "synth", &mut st, &mut viol);
    }

    if route == Route::Glyphs3 {
        // the Glyphs writer does not carry the fontinfo keys of the metric alphabet: advances only
        st.nontrivial = nontrivial as u64;
        let obs = json!({"route": "glyphs3", "hvar": hmode, "vvar": vmode, "glyph_names": names, "advance_mismatches": obs_adv});
        return Verdict { stats: st, viol, obs, nontrivial };
    }

    // ---- global metrics
    let mut obs_mvar = vec![];
    for def in METRICS {
        if def.vertical && !case.vertical {
            continue;
        }
        let Some(def_src) = case.src_value(def, dm) else { continue };
        let exp_default = ot_round(def_src);
        let Some(stat) = static_value(&font, def.field) else {
            viol.push((format!("default-metric-not-exact:{}", def.field), format!("field {} is absent from the font", def.field)));
            continue;
        };
        st.static_default_checks += 1;
        if stat != exp_default {
            viol.push((
                format!("default-metric-not-exact:{}", def.field),
                format!("{} = {stat}, the default master gives {def_src} -> {exp_default}", def.field),
            ));
        }
        let in_mvar = mvar_tags.iter().any(|t| t == def.tag);
        for m in 0..nm {
            if m == dm || case.is_layer(m) {
                continue;
            }
            let expected = ot_round(case.src_value(def, m).unwrap());
            let delta = vf.mvar_delta(def.tag, &coords[m]);
            let got = stat + delta;
            st.mvar_checks_master += 1;
            if case.caret_from_italic && (def.tag == "hcrn" || def.tag == "hcrs") {
                st.caret_from_italic_checks += 1;
            }
            if expected != exp_default {
                st.mvar_checks_master_nonzero_delta += 1;
                nontrivial = true;
            } else if !in_mvar {
                st.mvar_absent_tag_constant_source += 1;
            }
            let tol = mtol.tol(&coords[m]);
            if (got - expected).abs() > tol {
                viol.push((
                    format!("mvar-mismatch:{}", def.tag),
                    format!(
                        "{} ({}) at master {m} {:?}: {stat} + MVAR delta {delta} = {got}, the master gives {} -> {expected} (allowed {tol:.3}); tag in MVAR: {in_mvar}",
                        def.tag,
                        def.field,
                        coords[m],
                        case.src_value(def, m).unwrap()
                    ),
                ));
                obs_mvar.push(json!({"tag": def.tag, "master": m, "coords": coords[m], "static": stat, "delta": delta, "expected": expected}));
            }
        }
    }
    if case.explicit {
        for (field, _, v) in STATIC_ONLY {
            st.static_default_checks += 1;
            let got = static_value(&font, field);
            if got != Some(*v) {
                viol.push((format!("default-metric-not-exact:{field}"), format!("{field} = {got:?}, the default master gives {v}")));
            }
        }
    }
    {
        st.static_default_checks += 1;
        let got = static_value(&font, "post.italicAngle");
        if got != Some(case.italic[dm]) {
            viol.push((
                "default-metric-not-exact:post.italicAngle".into(),
                format!("post.italicAngle = {got:?}, the default master gives {}", case.italic[dm]),
            ));
        }
    }
    // keys omitted: the compiler's fallback formulas decide the values; with constant inputs no
    // metric may vary
    for t in &mvar_tags {
        if !METRICS.iter().any(|d| d.tag == t) {
            st.mvar_tags_outside_table += 1;
        }
    }
    if !case.explicit && case.fallback_inputs_constant() {
        st.fallback_constant_cases = 1;
        for t in &mvar_tags {
            for m in 0..nm {
                if case.is_layer(m) {
                    continue;
                }
                st.fallback_constant_checks += 1;
                let dlt = vf.mvar_delta(t, &coords[m]);
                if dlt.abs() > EPS {
                    viol.push((
                        format!("mvar-nonzero-for-constant-source:{t}"),
                        format!("every master has the same fontinfo, yet MVAR {t} gives delta {dlt} at master {m} {:?}", coords[m]),
                    ));
                }
            }
        }
    }
    // ---- second opinion (machinery guard, never a verdict): skrifa for glyph advances / phantom
    // points, read-fonts' own MVAR evaluation for the metric deltas
    let mut disagreements: Vec<String> = vec![];
    if second {
        st.second_opinion_cases = 1;
        for g in &case.glyphs {
            let Some(gid) = names.iter().position(|n| *n == g.name).map(|i| i as u16) else { continue };
            for m in 0..nm {
                st.second_opinion_glyph_checks += 1;
                match otvar::crosscheck_skrifa_detail(bytes, gid, &coords[m]) {
                    Ok(cc) if cc.ok() => {}
                    Ok(cc) => disagreements.push(format!("glyph {} master {m}: {cc:?}", g.name)),
                    Err(e) => disagreements.push(format!("glyph {} master {m}: {e}", g.name)),
                }
            }
        }
        if let Ok(mvar) = font.mvar() {
            use write_fonts::read::types::F2Dot14;
            for t in &mvar_tags {
                for m in 0..nm {
                    let c: Vec<F2Dot14> = coords[m].iter().map(|v| F2Dot14::from_f32(*v as f32)).collect();
                    let tag = Tag::new_checked(t.as_bytes()).unwrap_or(Tag::new(b"????"));
                    st.second_opinion_mvar_checks += 1;
                    match mvar.metric_delta(tag, &c) {
                        Ok(fx) => {
                            let ours = vf.mvar_delta(t, &coords[m]);
                            // read-fonts accumulates in 16.16 and rounds to an integer
                            if (fx.to_f64() - ours).abs() > 0.5 + 0.01 {
                                disagreements.push(format!("MVAR {t} master {m}: otvar {ours}, read-fonts {}", fx.to_f64()));
                            }
                        }
                        Err(e) => disagreements.push(format!("MVAR {t} master {m}: read-fonts {e}")),
                    }
                }
            }
        }
        st.second_opinion_disagreements = disagreements.len() as u64;
    }
    st.nontrivial = nontrivial as u64;
    let obs = json!({
        "hvar": hmode, "vvar": vmode, "mvar_tags": mvar_tags, "advance_submodels": models.len(),
        "glyph_names": names, "advance_mismatches": obs_adv, "mvar_mismatches": obs_mvar,
        "second_opinion_disagreements": disagreements,
    });
    Verdict { stats: st, viol, obs, nontrivial }
}

/// The design, the verdict on the font from the UFO route and, for the cases of `glyphs_twin` that the
/// Glyphs format can express, the verdict on the font from the Glyphs 3 twin (its stats folded into the
/// `g3_*` counters of the first).
fn run_case(case: &Case, second: bool) -> (Design, Verdict, Option<Verdict>) {
    let d = build(case);
    let sc = vcore::Scratch::new("c04");
    let path = d
        .write_designspace(sc.path())
        .unwrap_or_else(|e| vcore::machinery_error(&format!("writing the source: {e}")));
    let r = fcx::compile(&path, &fcx::Opts::default(), None);
    let mut v = judge(case, &d, &r, second, Route::Ufo);
    let mut g3 = None;
    if glyphs_twin(case) {
        if d.glyphs_unrepresentable().is_empty() {
            let sc = vcore::Scratch::new("c04g");
            let path = d
                .write_glyphs3(sc.path())
                .unwrap_or_else(|e| vcore::machinery_error(&format!("writing the Glyphs 3 source: {e}")));
            let r = fcx::compile(&path, &fcx::Opts::default(), None);
            let mut gv = judge(case, &d, &r, false, Route::Glyphs3);
            for (k, _) in gv.viol.iter_mut() {
                *k = format!("glyphs3/{k}");
            }
            fold_g3(&mut v.stats, &gv.stats);
            g3 = Some(gv);
        } else {
            v.stats.g3_unrepresentable = 1;
        }
    }
    (d, v, g3)
}

fn fold_g3(m: &mut Stats, g: &Stats) {
    m.g3_fonts += g.compiled;
    m.g3_compile_errors += g.compile_errors;
    m.g3_compile_panics += g.compile_panics;
    m.g3_fonts_with_sparse_glyph += g.fonts_with_sparse_glyph;
    m.g3_fonts_with_layer_master += g.fonts_with_layer_master;
    m.g3_fonts_hvar_indirect += g.fonts_hvar_indirect;
    m.g3_fonts_vvar += g.fonts_vvar;
    m.g3_advance_checks_default += g.advance_checks_default;
    m.g3_advance_checks_master += g.advance_checks_master;
    m.g3_advance_checks_master_nonzero_delta += g.advance_checks_master_nonzero_delta;
    m.g3_advance_checks_sparse_glyph += g.advance_checks_sparse_glyph;
    m.g3_phantom_checks += g.phantom_checks;
    m.g3_vadvance_checks_master += g.vadvance_checks_master;
    m.g3_agree_checks_own_master += g.agree_checks_own_master;
    m.g3_agree_checks_absent_master += g.agree_checks_absent_master;
    m.g3_agree_checks_absent_master_nonzero_delta += g.agree_checks_absent_master_nonzero_delta;
    m.g3_agree_checks_off_master += g.agree_checks_off_master;
    m.g3_vagree_checks_absent_master += g.vagree_checks_absent_master;
    m.g3_vagree_checks_off_master += g.vagree_checks_off_master;
}

// ------------------------------------------------------------------ enumeration

struct Space {
    name: String,
    what: String,
    n: usize,
    make: Box<dyn Fn(usize) -> Case + Sync + Send>,
}

fn digits(mut i: usize, base: usize, n: usize) -> Vec<usize> {
    let mut v = Vec::with_capacity(n);
    for _ in 0..n {
        v.push(i % base);
        i /= base;
    }
    v
}

fn sets_1axis() -> Vec<Vec<Vec<f64>>> {
    let s = |v: &[f64]| v.iter().map(|x| vec![*x]).collect::<Vec<_>>();
    vec![s(&[0.0, 1.0]), s(&[-1.0, 0.0]), s(&[-1.0, 0.0, 1.0]), s(&[0.0, 0.5, 1.0]), s(&[-1.0, 0.0, 0.5, 1.0])]
}

/// subsets of {-1,0,1}^2 ∪ {(0.5,0)} (∪ {(0.5,0.5)} when `with_diag`) that contain the origin, give both
/// axes an extent, have at most `max` masters, and contain a master with x = 1 whenever an intermediate x
/// is used (so that 0.5 is an intermediate location of the axis). The origin's position in the master
/// list rotates with the subset index.
fn sets_2axis(max: usize, with_diag: bool) -> Vec<Vec<Vec<f64>>> {
    let mut pts: Vec<Vec<f64>> = vec![];
    for x in [-1.0, 0.0, 1.0] {
        for y in [-1.0, 0.0, 1.0] {
            if x != 0.0 || y != 0.0 {
                pts.push(vec![x, y]);
            }
        }
    }
    pts.push(vec![0.5, 0.0]);
    if with_diag {
        pts.push(vec![0.5, 0.5]);
    }
    let mut out = vec![];
    for mask in 1u32..(1 << pts.len()) {
        let k = mask.count_ones() as usize;
        if k + 1 > max {
            continue;
        }
        let sel: Vec<Vec<f64>> = (0..pts.len()).filter(|i| mask & (1 << i) != 0).map(|i| pts[i].clone()).collect();
        if !sel.iter().any(|p| p[0] != 0.0) || !sel.iter().any(|p| p[1] != 0.0) {
            continue;
        }
        if sel.iter().any(|p| p[0] == 0.5) && !sel.iter().any(|p| p[0] == 1.0) {
            continue;
        }
        if sel.iter().any(|p| p[1] == 0.5) && !sel.iter().any(|p| p[1] == 1.0) {
            continue;
        }
        let mut locs = sel;
        let pos = out.len() % (locs.len() + 1);
        locs.insert(pos, vec![0.0, 0.0]);
        out.push(locs);
    }
    out
}

const ADV5: [f64; 5] = [0.0, 200.0, 517.0, 1000.0, 517.5];
const ADV4: [f64; 4] = [0.0, 200.0, 517.5, 1000.0];
const ADV3: [f64; 3] = [200.0, 517.5, 1000.0];
const HEIGHTS: [Option<f64>; 4] = [Some(1000.0), Some(900.0), Some(1100.0), None];

fn gspec(name: &str, adv: Vec<Option<f64>>, contour: bool) -> GlyphSpec {
    let n = adv.len();
    GlyphSpec { name: name.into(), adv, height: vec![None; n], contour }
}

/// .notdef modes: 0 absent, 1 constant in every master, 2 default master only, 3 varying in every master
fn add_notdef(case: &mut Case, mode: usize) {
    let nm = case.nm();
    let dm = case.default_master();
    let adv: Vec<Option<f64>> = match mode {
        0 => return,
        1 => vec![Some(500.0); nm],
        2 => (0..nm).map(|m| (m == dm).then_some(500.0)).collect(),
        _ => (0..nm).map(|m| Some(500.0 + 33.0 * m as f64)).collect(),
    };
    let adv = adv.into_iter().enumerate().map(|(m, a)| if case.is_layer(m) { None } else { a }).collect();
    case.glyphs.insert(0, gspec(".notdef", adv, true));
}

fn varied_pattern(nm: usize, salt: usize) -> Vec<Option<f64>> {
    (0..nm).map(|m| Some(300.0 + 41.0 * ((m * 3 + salt) % 7) as f64 + if (m + salt) % 3 == 1 { 0.5 } else { 0.0 })).collect()
}

fn subsets_with(nm: usize, must: usize) -> Vec<Vec<bool>> {
    (0..(1usize << nm)).filter(|s| s & (1 << must) != 0).map(|s| (0..nm).map(|m| s & (1 << m) != 0).collect()).collect()
}

fn spaces(tier: Tier) -> Vec<Space> {
    let thorough = tier == Tier::Thorough;
    let mut out: Vec<Space> = vec![];
    // the largest spaces go last so that a time cap cuts them first
    let mut last: Vec<Space> = vec![];
    let one = sets_1axis();

    // ---- A: all advance assignments, k glyphs
    for (si, set) in one.iter().enumerate() {
        let nm = set.len();
        if nm > 3 {
            continue;
        }
        // quick: the full alphabet on the 2-master sets, {0,200,517.5,1000} on {-1,0,1}, {200,517.5,1000} on {0,.5,1}
        let alpha: Vec<f64> = if thorough || nm == 2 {
            ADV5.to_vec()
        } else if si == 2 {
            ADV4.to_vec()
        } else {
            ADV3.to_vec()
        };
        let per_glyph = alpha.len().pow(nm as u32);
        let notdef_modes: Vec<usize> = if thorough {
            vec![0, 1, 2, 3]
        } else if nm == 2 {
            vec![0, 1, 2]
        } else {
            vec![0, 1]
        };
        let set = set.clone();
        let (a2, nd2) = (alpha.clone(), notdef_modes.clone());
        let set2 = set.clone();
        out.push(Space {
            name: format!("adv2/set{si}"),
            what: format!(
                "1 axis, masters {:?}; glyphs A (contour) and B (empty): every assignment of per-master advances from {:?} to both; .notdef modes {:?} (0 absent, 1 constant, 2 default master only, 3 varying)",
                set, alpha, notdef_modes
            ),
            n: per_glyph * per_glyph * notdef_modes.len(),
            make: Box::new(move |i| {
                let nd = nd2[i % nd2.len()];
                let i = i / nd2.len();
                let (ia, ib) = (i % per_glyph, i / per_glyph);
                let mut c = Case::new(&format!("adv2/set{si}"), set2.clone());
                let pa = digits(ia, a2.len(), nm).into_iter().map(|k| Some(a2[k])).collect();
                let pb = digits(ib, a2.len(), nm).into_iter().map(|k| Some(a2[k])).collect();
                c.glyphs = vec![gspec("A", pa, true), gspec("B", pb, false)];
                add_notdef(&mut c, nd);
                c
            }),
        });
        if thorough && nm == 3 {
            let a4 = if si == 2 { ADV4.to_vec() } else { ADV3.to_vec() };
            let per = a4.len().pow(nm as u32);
            let set3 = set.clone();
            last.push(Space {
                name: format!("adv3/set{si}"),
                what: format!(
                    "1 axis, masters {:?}; glyphs A, B, C: every assignment of per-master advances from {:?} to all three; .notdef absent / constant",
                    set, a4
                ),
                n: per * per * per * 2,
                make: Box::new(move |i| {
                    let nd = i % 2;
                    let i = i / 2;
                    let (ia, ib, ic) = (i % per, (i / per) % per, i / (per * per));
                    let mut c = Case::new(&format!("adv3/set{si}"), set3.clone());
                    let p = |ix: usize| digits(ix, a4.len(), nm).into_iter().map(|k| Some(a4[k])).collect::<Vec<_>>();
                    c.glyphs = vec![gspec("A", p(ia), true), gspec("B", p(ib), false), gspec("C", p(ic), true)];
                    add_notdef(&mut c, nd);
                    c
                }),
            });
        }
    }

    // ---- S: sparse glyphs (absent from some full masters) on 1 axis
    for (si, set) in one.iter().enumerate() {
        let nm = set.len();
        if nm < 3 {
            continue;
        }
        let dm = set.iter().position(|l| l[0] == 0.0).unwrap();
        let subs = subsets_with(nm, dm);
        let alpha = ADV3.to_vec();
        // glyph B: a subset with every assignment on it; glyph C: a subset with a fixed varied pattern
        let mut bvars: Vec<Vec<Option<f64>>> = vec![];
        for s in &subs {
            let k = s.iter().filter(|b| **b).count();
            for ix in 0..alpha.len().pow(k as u32) {
                let dg = digits(ix, alpha.len(), k);
                let mut it = dg.into_iter();
                bvars.push(s.iter().map(|b| b.then(|| alpha[it.next().unwrap()])).collect());
            }
        }
        let cvars: Vec<Option<Vec<Option<f64>>>> = std::iter::once(None)
            .chain(subs.iter().map(|s| {
                let p = varied_pattern(nm, 2);
                Some(s.iter().enumerate().map(|(m, b)| if *b { p[m] } else { None }).collect())
            }))
            .collect();
        // quick: on the 4-master set C stays absent
        let cvars: Vec<Option<Vec<Option<f64>>>> = if !thorough && nm == 4 { vec![None] } else { cvars };
        let nds = [0usize, 1, 2];
        let set2 = set.clone();
        let n = bvars.len() * cvars.len() * nds.len();
        out.push(Space {
            name: format!("sparse/set{si}"),
            what: format!(
                "1 axis, masters {:?}; A on every master (varied), B on every master subset containing the default with every advance assignment from {:?}, C absent or on every such subset with a fixed varied pattern; .notdef absent / constant / default only",
                set, alpha
            ),
            n,
            make: Box::new(move |i| {
                let nd = nds[i % 3];
                let i = i / 3;
                let (ib, ic) = (i % bvars.len(), i / bvars.len());
                let mut c = Case::new(&format!("sparse/set{si}"), set2.clone());
                c.glyphs = vec![gspec("A", varied_pattern(nm, 0), true), gspec("B", bvars[ib].clone(), ib % 2 == 0)];
                if let Some(cv) = &cvars[ic] {
                    c.glyphs.push(gspec("C", cv.clone(), false));
                }
                add_notdef(&mut c, nd);
                c
            }),
        });
    }

    // ---- P: EVERY glyph on every subset of the masters that contains the default (so that a master may
    // be left without any glyph), horizontal and vertical; judged at every master location and midpoint
    {
        let v1 = |v: &[f64]| v.iter().map(|x| vec![*x]).collect::<Vec<_>>();
        let mut layouts: Vec<(&str, Vec<Vec<f64>>, Vec<usize>)> = vec![
            ("1ax-3", one[2].clone(), vec![]),
            ("1ax-3i", one[3].clone(), vec![]),
            ("1ax-4", one[4].clone(), vec![]),
            ("1ax-2+layer", v1(&[0.0, 1.0, 0.5]), vec![2]),
            ("1ax-3+layer", v1(&[-1.0, 0.0, 1.0, 0.5]), vec![3]),
            ("2ax-corner3", vec![vec![0.0, 0.0], vec![1.0, 0.0], vec![0.0, 1.0]], vec![]),
            ("2ax-corner4", vec![vec![0.0, 0.0], vec![1.0, 0.0], vec![0.0, 1.0], vec![1.0, 1.0]], vec![]),
            ("2ax-corner4r", vec![vec![1.0, 1.0], vec![0.0, 1.0], vec![1.0, 0.0], vec![0.0, 0.0]], vec![]),
        ];
        if thorough {
            layouts.push(("2ax-cross5", vec![vec![-1.0, 0.0], vec![0.0, -1.0], vec![0.0, 0.0], vec![1.0, 0.0], vec![0.0, 1.0]], vec![]));
            layouts.push(("2ax-corner4+layer", vec![vec![0.0, 0.0], vec![1.0, 0.0], vec![0.0, 1.0], vec![1.0, 1.0], vec![0.5, 0.0]], vec![4]));
            layouts.push(("1ax-4+layer", v1(&[-1.0, 0.0, 0.5, 1.0, -0.5]), vec![4]));
        }
        for (lname, set, layers) in layouts {
            let nm = set.len();
            let dm = set.iter().position(|l| l.iter().all(|v| *v == 0.0)).unwrap();
            let subs = subsets_with(nm, dm);
            let ns = subs.len();
            // glyphs: .notdef (absent or on a subset), A (contour), B (empty); thorough adds C (contour) up to 4 masters
            let with_c = thorough && nm <= 4;
            let n = (ns + 1) * ns * ns * if with_c { ns } else { 1 } * 2;
            let name = format!("subsets/{lname}");
            let name2 = name.clone();
            let set2 = set.clone();
            let layers2 = layers.clone();
            out.push(Space {
                name,
                what: format!(
                    "masters {:?} (glyph-only layer masters: {:?}); .notdef absent or on every master subset containing the default, A (contour) and B (empty){} each on every such subset, independently (a master may be left without any glyph); advances and heights fixed and different in every master; vertical metrics off/on (heights explicit); also compiled from the Glyphs 3 twin",
                    set,
                    layers,
                    if with_c { " and C (contour)" } else { "" }
                ),
                n,
                make: Box::new(move |i| {
                    let vertical = i % 2 == 1;
                    let mut i = i / 2;
                    let mut pick = |base: usize| {
                        let k = i % base;
                        i /= base;
                        k
                    };
                    let (ka, kb) = (pick(ns), pick(ns));
                    let kc = if with_c { Some(pick(ns)) } else { None };
                    let knd = pick(ns + 1);
                    let mut c = Case::new(&name2, set2.clone());
                    c.layer_masters = layers2.clone();
                    c.vertical = vertical;
                    let hp = |salt: usize| (0..nm).map(|m| Some(1000.0 + 50.0 * ((m + salt) % 3) as f64 - 100.0 * ((m * 2 + salt) % 2) as f64 + if m % 2 == 1 { 0.5 } else { 0.0 })).collect::<Vec<_>>();
                    let mk = |gname: &str, pat: Vec<Option<f64>>, sub: &Vec<bool>, salt: usize, contour: bool| {
                        let mut g = gspec(gname, pat.iter().zip(sub).map(|(p, on)| if *on { *p } else { None }).collect(), contour);
                        if vertical {
                            g.height = hp(salt).iter().zip(sub).map(|(p, on)| if *on { *p } else { None }).collect();
                        }
                        g
                    };
                    if knd > 0 {
                        c.glyphs.push(mk(".notdef", (0..nm).map(|m| Some(500.0 + 33.0 * m as f64)).collect(), &subs[knd - 1], 2, true));
                    }
                    c.glyphs.push(mk("A", varied_pattern(nm, 0), &subs[ka], 0, true));
                    c.glyphs.push(mk("B", varied_pattern(nm, 3), &subs[kb], 1, false));
                    if let Some(kc) = kc {
                        c.glyphs.push(mk("C", varied_pattern(nm, 5), &subs[kc], 3, true));
                    }
                    c
                }),
            });
        }
    }

    // ---- L: a glyph-only intermediate layer master
    {
        let alpha = ADV3.to_vec();
        let sets: Vec<(Vec<Vec<f64>>, usize)> = vec![
            (vec![vec![0.0], vec![1.0], vec![0.5]], 2),
            (vec![vec![-1.0], vec![0.0], vec![1.0], vec![0.5]], 3),
        ];
        for (si, (set, layer)) in sets.into_iter().enumerate() {
            let nm = set.len();
            let per = alpha.len().pow(nm as u32);
            let a2 = alpha.clone();
            let set2 = set.clone();
            out.push(Space {
                name: format!("layer/set{si}"),
                what: format!(
                    "1 axis, full masters + a glyph-only layer master at 0.5 ({:?}, layer = index {layer}); A only on the full masters, B also in the layer with every assignment from {:?}; C (second tier of the layer) present/absent; .notdef absent/constant",
                    set, alpha
                ),
                n: per * 2 * 2,
                make: Box::new(move |i| {
                    let nd = i % 2;
                    let withc = (i / 2) % 2 == 1;
                    let ib = i / 4;
                    let mut c = Case::new(&format!("layer/set{si}"), set2.clone());
                    c.layer_masters = vec![layer];
                    let mut pa = varied_pattern(nm, 1);
                    pa[layer] = None;
                    let pb = digits(ib, a2.len(), nm).into_iter().map(|k| Some(a2[k])).collect();
                    c.glyphs = vec![gspec("A", pa, true), gspec("B", pb, true)];
                    if withc {
                        c.glyphs.push(gspec("C", varied_pattern(nm, 4), false));
                    }
                    add_notdef(&mut c, nd);
                    c
                }),
            });
        }
    }

    // ---- T: two axes, every master set
    {
        let sets = sets_2axis(if thorough { 5 } else { 4 }, thorough);
        let nsets = sets.len();
        // per set: B gets every assignment over {200, 517.5}; then B on every subset containing the default
        let mut idx: Vec<(usize, Vec<Option<f64>>, usize)> = vec![]; // (set, B pattern, notdef mode)
        for (si, set) in sets.iter().enumerate() {
            let nm = set.len();
            let dm = set.iter().position(|l| l.iter().all(|v| *v == 0.0)).unwrap();
            for nd in [0usize, 1] {
                for ix in 0..(1usize << nm) {
                    let p = digits(ix, 2, nm).into_iter().map(|k| Some([200.0, 517.5][k])).collect();
                    idx.push((si, p, nd));
                }
                for s in subsets_with(nm, dm) {
                    if s.iter().all(|b| *b) {
                        continue;
                    }
                    let p = varied_pattern(nm, 5);
                    idx.push((si, s.iter().enumerate().map(|(m, b)| if *b { p[m] } else { None }).collect(), nd));
                }
            }
        }
        let n = idx.len();
        out.push(Space {
            name: "twoaxis".into(),
            what: format!(
                "2 axes, all {nsets} master sets: subsets of {{-1,0,1}}^2 ∪ {{(0.5,0)}}{} containing the origin, both axes with extent, <= {} masters, the origin's index rotating; A varied on every master, B with every assignment from {{200, 517.5}} and B sparse on every master subset containing the default; .notdef absent/constant",
                if thorough { " ∪ {(0.5,0.5)}" } else { "" },
                if thorough { 5 } else { 4 }
            ),
            n,
            make: Box::new(move |i| {
                let (si, pb, nd) = &idx[i];
                let set = &sets[*si];
                let mut c = Case::new("twoaxis", set.clone());
                c.glyphs = vec![gspec("A", varied_pattern(set.len(), *si), true), gspec("B", pb.clone(), false)];
                add_notdef(&mut c, *nd);
                c
            }),
        });
    }

    // ---- H: many glyphs sharing delta sets (so that the indirect HVAR map can win on size)
    {
        let counts: Vec<usize> = if thorough { (2..=40).collect() } else { vec![4, 8, 12, 16, 24, 32] };
        let sets: Vec<Vec<Vec<f64>>> = vec![one[0].clone(), one[2].clone(), one[3].clone()];
        let n = counts.len() * sets.len() * 3 * 2;
        out.push(Space {
            name: "share".into(),
            what: format!(
                "1 axis (3 master sets); n glyphs for n in {:?} with k in {{1,2,3}} distinct advance patterns dealt round-robin; .notdef absent/constant",
                counts
            ),
            n,
            make: Box::new(move |i| {
                let nd = i % 2;
                let k = (i / 2) % 3 + 1;
                let set = &sets[(i / 6) % sets.len()];
                let cnt = counts[i / (6 * sets.len())];
                let mut c = Case::new("share", set.clone());
                for g in 0..cnt {
                    c.glyphs.push(gspec(&format!("g{g:02}"), varied_pattern(set.len(), g % k), g % 5 == 0));
                }
                add_notdef(&mut c, nd);
                c
            }),
        });
    }

    // ---- V: vertical metrics
    for (si, set) in one.iter().enumerate() {
        let nm = set.len();
        if nm > 3 {
            continue;
        }
        let nh: usize = if thorough { 4 } else { 3 };
        let per = nh.pow(nm as u32);
        let set2 = set.clone();
        out.push(Space {
            name: format!("vert/set{si}"),
            what: format!(
                "1 axis, masters {:?}, vertical metrics on (three vhea keys in every master); A and B with every assignment of per-master heights from {:?}; .notdef absent/constant",
                set,
                &HEIGHTS[..nh]
            ),
            n: per * per * 2,
            make: Box::new(move |i| {
                let nd = i % 2;
                let i = i / 2;
                let (ia, ib) = (i % per, i / per);
                let mut c = Case::new(&format!("vert/set{si}"), set2.clone());
                c.vertical = true;
                let mut a = gspec("A", varied_pattern(nm, 0), true);
                a.height = digits(ia, nh, nm).into_iter().map(|k| HEIGHTS[k]).collect();
                let mut b = gspec("B", varied_pattern(nm, 3), false);
                b.height = digits(ib, nh, nm).into_iter().map(|k| HEIGHTS[k]).collect();
                c.glyphs = vec![a, b];
                add_notdef(&mut c, nd);
                if nd == 1 {
                    c.glyphs[0].height = vec![Some(1000.0); nm];
                }
                c
            }),
        });
    }
    // vertical + sparse + two axes
    {
        let mut sets = vec![one[2].clone(), one[3].clone(), one[4].clone()];
        sets.extend(sets_2axis(4, false).into_iter().step_by(if thorough { 1 } else { 9 }));
        let mut idx: Vec<(usize, Vec<bool>)> = vec![];
        for (si, set) in sets.iter().enumerate() {
            let dm = set.iter().position(|l| l.iter().all(|v| *v == 0.0)).unwrap();
            for s in subsets_with(set.len(), dm) {
                idx.push((si, s));
            }
        }
        out.push(Space {
            name: "vert-sparse".into(),
            what: format!(
                "vertical metrics on; {} master sets (1 axis with >= 3 masters, 2 axes <= 4 masters); A on every master, B on every master subset containing the default; heights and advances varied per master; .notdef absent",
                sets.len()
            ),
            n: idx.len(),
            make: Box::new(move |i| {
                let (si, s) = &idx[i];
                let set = &sets[*si];
                let nm = set.len();
                let mut c = Case::new("vert-sparse", set.clone());
                c.vertical = true;
                let hp = |salt: usize| (0..nm).map(|m| Some(1000.0 + 50.0 * ((m + salt) % 3) as f64 - 100.0 * ((m * 2 + salt) % 2) as f64 + if m % 2 == 1 { 0.5 } else { 0.0 })).collect::<Vec<_>>();
                let mut a = gspec("A", varied_pattern(nm, 0), true);
                a.height = hp(0);
                let pb = varied_pattern(nm, 3);
                let hb = hp(1);
                let mut b = gspec("B", s.iter().enumerate().map(|(m, on)| if *on { pb[m] } else { None }).collect(), true);
                b.height = s.iter().enumerate().map(|(m, on)| if *on { hb[m] } else { None }).collect();
                c.glyphs = vec![a, b];
                c
            }),
        });
    }

    // ---- M1: one metric varied at a time, every per-master pattern over {v, v+7, v-13}
    {
        let mut sets: Vec<Vec<Vec<f64>>> = one.clone();
        if thorough {
            sets.extend(sets_2axis(4, false));
        } else {
            sets.extend(sets_2axis(3, false).into_iter().step_by(5));
        }
        let mut idx: Vec<(usize, usize, usize)> = vec![]; // set, metric, pattern
        for (si, set) in sets.iter().enumerate() {
            for (mi, _) in METRICS.iter().enumerate() {
                for p in 0..3usize.pow(set.len() as u32) {
                    idx.push((si, mi, p));
                }
            }
        }
        out.push(Space {
            name: "mvar-one".into(),
            what: format!(
                "{} master sets (all five 1-axis sets; 2-axis sets: {}); every metric of the {}-entry MVAR table (vertical ones with vertical metrics on) varied alone with every per-master pattern over {{v, v+7, v-13}}; all keys explicit; glyph A constant",
                sets.len(),
                if thorough { "all with <= 4 masters" } else { "every 5th of those with <= 3 masters" },
                METRICS.len()
            ),
            n: idx.len(),
            make: Box::new(move |i| {
                let (si, mi, p) = idx[i];
                let set = &sets[si];
                let nm = set.len();
                let def = &METRICS[mi];
                let mut c = Case::new("mvar-one", set.clone());
                c.vertical = def.vertical;
                let vals = digits(p, 3, nm).into_iter().map(|k| def.base + [0.0, 7.0, -13.0][k]).collect();
                c.metrics.insert(def.tag.to_string(), vals);
                let mut a = gspec("A", vec![Some(500.0); nm], true);
                a.height = vec![Some(1000.0); nm];
                c.glyphs = vec![a];
                c
            }),
        });
    }
    // ---- M2: all metrics at once; fractional values where fontinfo admits them; avar
    {
        let mut sets: Vec<Vec<Vec<f64>>> = one.clone();
        // the same 1-axis sets with the masters listed in descending order
        sets.extend(one.iter().map(|s| s.iter().rev().cloned().collect()));
        sets.extend(sets_2axis(4, false).into_iter().step_by(if thorough { 1 } else { 7 }));
        let reps = if thorough { 40 } else { 12 };
        let n = sets.len() * reps * 2 * 2;
        out.push(Space {
            name: "mvar-all".into(),
            what: format!(
                "{} master sets; every metric varied at once, metric i taking pattern (7k + 5i + 1) mod 3^m over {{v, v+7, v-13}} for k < {reps}, float-typed keys (xHeight, capHeight, underline) also over {{v+0.5, v-12.5}}; vertical on/off; axis 0 with/without a non-linear avar map",
                sets.len()
            ),
            n,
            make: Box::new(move |i| {
                let vertical = i % 2 == 1;
                let mapped = (i / 2) % 2 == 1;
                let k = (i / 4) % reps;
                let set = &sets[i / (4 * reps)];
                let nm = set.len();
                let mut c = Case::new("mvar-all", set.clone());
                c.vertical = vertical;
                c.mapped = mapped;
                let np = 3usize.pow(nm as u32);
                for (mi, def) in METRICS.iter().enumerate() {
                    if def.vertical && !vertical {
                        continue;
                    }
                    let p = (7 * k + 5 * mi + 1) % np;
                    let frac = def.float_ok && k % 2 == 1;
                    let offs = if frac { [0.0, 0.5, -12.5] } else { [0.0, 7.0, -13.0] };
                    c.metrics.insert(def.tag.to_string(), digits(p, 3, nm).into_iter().map(|d| def.base + offs[d]).collect());
                }
                let mut a = gspec("A", varied_pattern(nm, k), true);
                a.height = (0..nm).map(|m| Some(1000.0 + 10.0 * m as f64)).collect();
                c.glyphs = vec![a];
                c
            }),
        });
    }
    // ---- M3: italic angle drives the caret; keys omitted
    {
        let sets: Vec<Vec<Vec<f64>>> = one.clone().into_iter().chain(sets_2axis(3, false)).collect();
        let mut idx: Vec<(usize, usize, bool)> = vec![];
        for (si, set) in sets.iter().enumerate() {
            for p in 0..(1usize << set.len()) {
                idx.push((si, p, true));
            }
            // keys omitted: constant source (incl. every constant italic angle), and xHeight/capHeight varied
            for p in 0..(2 + 3usize.pow(set.len() as u32)) {
                idx.push((si, p, false));
            }
        }
        out.push(Space {
            name: "italic+omitted".into(),
            what: format!(
                "{} master sets (1 axis all; 2 axes <= 3 masters). (a) every key explicit except hhea caret rise/run, italicAngle per master every assignment over {{0,-10}}: hcrs = upem, hcrn = round(upem·tan(-angle)); (b) all openType*/postscript* keys omitted: italic angle 0 or -10 on every master => no MVAR delta anywhere; xHeight and capHeight varied with every pattern over {{v,v+7,v-13}} => xhgt/cpht judged, derived metrics not",
                sets.len()
            ),
            n: idx.len(),
            make: Box::new(move |i| {
                let (si, p, explicit) = idx[i];
                let set = &sets[si];
                let nm = set.len();
                let mut c = Case::new("italic+omitted", set.clone());
                c.glyphs = vec![gspec("A", varied_pattern(nm, 1), true)];
                if explicit {
                    c.caret_from_italic = true;
                    c.italic = digits(p, 2, nm).into_iter().map(|k| [0.0, -10.0][k]).collect();
                } else {
                    c.explicit = false;
                    if p < 2 {
                        c.italic = vec![[0.0, -10.0][p]; nm];
                    } else {
                        let dg = digits(p - 2, 3, nm);
                        let offs = [0.0, 7.0, -13.0];
                        c.metrics.insert("xhgt".into(), dg.iter().map(|k| metric("xhgt").base + offs[*k]).collect());
                        c.metrics.insert("cpht".into(), dg.iter().rev().map(|k| metric("cpht").base + offs[*k]).collect());
                    }
                }
                c
            }),
        });
    }
    // ---- X: advances through an avar-mapped axis
    {
        let sets: Vec<Vec<Vec<f64>>> = one.clone().into_iter().chain(sets_2axis(4, false).into_iter().step_by(if thorough { 1 } else { 11 })).collect();
        let alpha = ADV3.to_vec();
        let mut idx: Vec<(usize, usize)> = vec![];
        for (si, set) in sets.iter().enumerate() {
            for p in 0..alpha.len().pow(set.len().min(4) as u32) {
                idx.push((si, p));
            }
        }
        out.push(Space {
            name: "avar".into(),
            what: format!(
                "{} master sets with a non-linear user->design map on axis 0 (master coordinates go through avar); A varied, B every assignment from {:?}",
                sets.len(),
                alpha
            ),
            n: idx.len(),
            make: Box::new(move |i| {
                let (si, p) = idx[i];
                let set = &sets[si];
                let nm = set.len();
                let mut c = Case::new("avar", set.clone());
                c.mapped = true;
                let pb = digits(p, alpha.len(), nm).into_iter().map(|k| Some(alpha[k])).collect();
                c.glyphs = vec![gspec("A", varied_pattern(nm, 2), true), gspec("B", pb, false)];
                c
            }),
        });
    }
    out.extend(last);
    for s in &out {
        assert!(s.n > 0, "empty space {}", s.name);
    }
    out
}

// ------------------------------------------------------------------ main

fn canon_hash(case: &Case) -> u64 {
    let mut c = case.clone();
    c.space.clear();
    vcore::hash64(serde_json::to_string(&c).unwrap().as_bytes())
}

fn replay(path: &std::path::Path) -> ! {
    let s = std::fs::read_to_string(path).unwrap_or_else(|e| vcore::machinery_error(&format!("{path:?}: {e}")));
    let v: Value = serde_json::from_str(&s).unwrap_or_else(|e| vcore::machinery_error(&format!("{path:?}: {e}")));
    let r = v.get("replay").cloned().unwrap_or(v);
    let case: Case = serde_json::from_value(r["case"].clone()).unwrap_or_else(|e| vcore::machinery_error(&format!("case: {e}")));
    let (d, mut verdict, g3) = run_case(&case, true);
    if let Some(g) = g3 {
        println!("glyphs3 route observation: {}", serde_json::to_string(&g.obs).unwrap());
        verdict.viol.extend(g.viol);
    }
    if let Some(stored) = r.get("design") {
        if let Ok(sd) = serde_json::from_value::<Design>(stored.clone()) {
            if sd != d {
                println!("note: the stored design differs from the one rebuilt from the case (generator changed); the rebuilt one is judged");
            }
        }
    }
    println!("case: {}", serde_json::to_string(&case).unwrap());
    println!("observation: {}", serde_json::to_string_pretty(&verdict.obs).unwrap());
    if verdict.viol.is_empty() {
        println!("no violation");
        vcore::cleanup_scratch();
        std::process::exit(0)
    }
    for (k, w) in &verdict.viol {
        println!("VIOLATION {k}: {w}");
    }
    vcore::cleanup_scratch();
    std::process::exit(1)
}

fn main() {
    let args = vcore::parse_args();
    std::panic::set_hook(Box::new(|info| {
        if info.location().is_some_and(|l| l.file().ends_with("c04.rs")) {
            eprintln!("harness panic: {info}");
        }
    }));
    if let Some(p) = &args.replay {
        replay(p);
    }
    // `c04 <tier> sizes`: the spaces and their sizes, nothing is run
    if args.rest.first().map(|s| s.as_str()) == Some("sizes") {
        let sp = spaces(args.tier);
        for s in &sp {
            println!("{:>9}  {}", s.n, s.name);
        }
        println!("{:>9}  total", sp.iter().map(|s| s.n).sum::<usize>());
        return;
    }
    // `c04 probe <space> <index>`: print one case (debugging aid)
    if args.rest.first().map(|s| s.as_str()) == Some("probe") {
        let sp = spaces(args.tier);
        let name = args.rest.get(1).cloned().unwrap_or_default();
        let i: usize = args.rest.get(2).and_then(|s| s.parse().ok()).unwrap_or(0);
        let s = sp.iter().find(|s| s.name == name).unwrap_or_else(|| vcore::machinery_error("no such space"));
        let case = (s.make)(i);
        let (_, mut v, g3) = run_case(&case, true);
        if let Some(g) = g3 {
            println!("glyphs3 route: {}", serde_json::to_string(&g.obs).unwrap());
            v.viol.extend(g.viol);
        }
        println!("{}", serde_json::to_string(&case).unwrap());
        println!("{}", serde_json::to_string_pretty(&v.obs).unwrap());
        println!("{}", serde_json::to_string_pretty(&v.stats).unwrap());
        for (k, w) in &v.viol {
            println!("VIOLATION {k}: {w}");
        }
        vcore::cleanup_scratch();
        return;
    }
    let mut rep = Reporter::new("C04", "exploration", &args);
    let mut sp = spaces(args.tier);
    // `c04 <tier> only <prefix>`: run the spaces whose name starts with <prefix> (debugging aid; the run is
    // reported as not exhaustive)
    let only: Option<String> = (args.rest.first().map(|s| s.as_str()) == Some("only")).then(|| args.rest.get(1).cloned().unwrap_or_default());
    if let Some(p) = &only {
        sp.retain(|s| s.name.starts_with(p.as_str()));
        if sp.is_empty() {
            vcore::machinery_error("no space with that prefix");
        }
    }
    let mut starts = vec![];
    let mut total = 0usize;
    for s in &sp {
        starts.push(total);
        total += s.n;
    }
    let locate = |i: usize| -> (usize, usize) {
        let si = match starts.binary_search(&i) {
            Ok(k) => k,
            Err(k) => k - 1,
        };
        (si, i - starts[si])
    };
    let chunk = 64usize;
    let nchunks = total.div_ceil(chunk);
    let budget_s: f64 = std::env::var("VERIF_C04_BUDGET_S")
        .ok()
        .and_then(|s| s.parse().ok())
        .unwrap_or(args.tier.pick(150.0, 1500.0) * vcore::budget_scale());
    let t0 = std::time::Instant::now();
    let results = vcore::par_for(nchunks, vcore::ncores(), |ci| {
        let mut st = Stats::default();
        let mut per_space: BTreeMap<String, (u64, u64)> = BTreeMap::new();
        let mut viol: Vec<(String, String, Value)> = vec![];
        let mut samples: Vec<Value> = vec![];
        let mut hashes: Vec<u64> = vec![];
        let mut errors: Vec<Value> = vec![];
        if t0.elapsed().as_secs_f64() > budget_s {
            return (st, per_space, viol, samples, hashes, errors, (chunk.min(total - ci * chunk)) as u64);
        }
        for gi in ci * chunk..((ci + 1) * chunk).min(total) {
            let (si, li) = locate(gi);
            let case = (sp[si].make)(li);
            let (d, mut v, g3) = run_case(&case, gi % 8 == 0);
            add_stats(&mut st, &v.stats);
            if let Some(g) = g3 {
                if g.stats.compile_errors > 0 && errors.len() < 2 {
                    errors.push(json!({"case": case, "route": "glyphs3", "error": g.obs}));
                }
                v.viol.extend(g.viol);
            }
            let e = per_space.entry(sp[si].name.clone()).or_default();
            e.0 += 1;
            if v.nontrivial {
                e.1 += 1;
                hashes.push(canon_hash(&case));
            }
            if v.stats.compile_errors > 0 && errors.is_empty() {
                errors.push(json!({"case": case, "error": v.obs}));
            }
            if v.stats.second_opinion_disagreements > 0 && errors.len() < 3 {
                errors.push(json!({"case": case, "second_opinion": v.obs["second_opinion_disagreements"]}));
            }
            if li == sp[si].n / 2 && v.viol.is_empty() {
                samples.push(json!({"case": case, "observation": v.obs}));
            }
            let mut seen = BTreeSet::new();
            for (key, what) in v.viol {
                if seen.insert(key.clone()) {
                    viol.push((
                        key,
                        format!("[{} #{li}] {what}", case.space),
                        json!({"case": case, "design": serde_json::to_value(&d).unwrap_or(Value::Null), "observation": v.obs}),
                    ));
                }
            }
        }
        (st, per_space, viol, samples, hashes, errors, 0u64)
    });
    let mut tot = Stats::default();
    let mut per_space: BTreeMap<String, (u64, u64)> = BTreeMap::new();
    let mut samples = vec![];
    let mut distinct: HashSet<u64> = HashSet::new();
    let mut errors = vec![];
    let mut skipped = 0u64;
    for (st, ps, viol, s, hashes, errs, sk) in results {
        add_stats(&mut tot, &st);
        for (k, (a, b)) in ps {
            let e = per_space.entry(k).or_default();
            e.0 += a;
            e.1 += b;
        }
        for (k, w, r) in viol {
            rep.violation(&k, &w, r);
        }
        samples.extend(s);
        distinct.extend(hashes);
        if errors.len() < 5 {
            errors.extend(errs);
        }
        skipped += sk;
    }
    tot.nontrivial = distinct.len() as u64;
    rep.set("evaluations", tot.evaluations);
    rep.set("distinct_nontrivial", distinct.len() as u64);
    rep.set(
        "rule",
        "distinct cases (hash of the case without its space label) that compiled and in which at least one comparison at a NON-default master location had an expected value different from the default-location value, i.e. a non-zero HVAR/VVAR/MVAR delta had to be reproduced",
    );
    rep.set("counts", serde_json::to_value(&tot).unwrap());
    rep.set(
        "hvar_vs_phantom_points",
        json!({
            "glyph_x_master_comparisons_where_the_glyph_has_no_source": tot.agree_checks_absent_master,
            "of_those_glyph_has_two_or_more_sources": tot.agree_checks_absent_master_varying_glyph,
            "of_those_value_differs_from_default": tot.agree_checks_absent_master_nonzero_delta,
            "glyph_x_own_master_comparisons": tot.agree_checks_own_master,
            "glyph_x_off_master_midpoint_comparisons": tot.agree_checks_off_master,
            "synthesised_notdef_comparisons": tot.agree_checks_synth_notdef,
            "comparisons_with_a_rounding_allowance": tot.agree_checks_with_rounding_allowance,
            "heights_no_source": tot.vagree_checks_absent_master,
            "heights_off_master": tot.vagree_checks_off_master,
            "fonts_with_glyph_absent_from_full_nondefault_master": tot.fonts_with_glyph_absent_from_full_nondefault_master,
            "fonts_with_a_master_no_glyph_has_a_source_in": tot.fonts_with_master_no_glyph_has_a_source_in,
        }),
    );
    rep.set(
        "glyphs3_route",
        json!({
            "fonts": tot.g3_fonts,
            "compile_errors": tot.g3_compile_errors,
            "designs_not_expressible": tot.g3_unrepresentable,
            "fonts_with_sparse_glyph": tot.g3_fonts_with_sparse_glyph,
            "fonts_with_brace_layer": tot.g3_fonts_with_layer_master,
            "advance_checks_nondefault_master": tot.g3_advance_checks_master,
            "hvar_vs_phantom_no_source": tot.g3_agree_checks_absent_master,
            "hvar_vs_phantom_off_master": tot.g3_agree_checks_off_master,
            "heights_no_source": tot.g3_vagree_checks_absent_master,
        }),
    );
    rep.set(
        "spaces",
        Value::Array(
            sp.iter()
                .map(|s| {
                    let (run, nt) = per_space.get(&s.name).copied().unwrap_or((0, 0));
                    json!({"name": s.name, "cases": s.n, "run": run, "nontrivial": nt, "what": s.what})
                })
                .collect(),
        ),
    );
    if tot.second_opinion_disagreements > 0 {
        eprintln!("{}", serde_json::to_string_pretty(&errors).unwrap_or_default());
        vcore::machinery_error(&format!(
            "the evaluator (otvar) and the second opinion (skrifa / read-fonts) disagree in {} comparisons; no verdict",
            tot.second_opinion_disagreements
        ));
    }
    rep.set("samples", samples);
    rep.set("compile_error_samples", errors);
    rep.set("skipped_by_time_budget", skipped);
    rep.set("exhaustive", skipped == 0 && tot.compile_errors == 0 && tot.g3_compile_errors == 0 && only.is_none());
    if let Some(p) = &only {
        rep.set("restricted_to_spaces_with_prefix", p.clone());
    }
    rep.assume("sources are UFO 3 + designspace 4.1 written by dgen, upem 1000, axes wght (100/400/900) and wdth (50/100/200), master locations on the grid {-1,-0.5,0,0.5,1} per axis (exactly representable as F2Dot14, so the font's own fvar/avar normalisation of a master's user location is the grid point; checked per case)");
    rep.assume("glyphs are simple (one rectangle following the advance, or empty); composites and USE_MY_METRICS are C03's subject");
    rep.assume("hhea ascender/descender/lineGap have no MVAR value tag (OpenType MVAR value tags hasc/hdsc/hlgp address OS/2 typo metrics): only their default-location value is judged");
    rep.assume("against SOURCE values a glyph is judged at the masters where it has a layer; the synthesised .notdef (no source) has no source value (a varying one is counted in synth_notdef_varies). hmtx+HVAR / vmtx+VVAR against the gvar phantom points is judged for every glyph of the font (the synthesised .notdef too) at EVERY master location of the design (full and glyph-only layer masters), whether or not the glyph has a source there, and at the midpoint of every pair of master locations");
    rep.assume("agreement of HVAR/VVAR with the phantom points presumes one interpolation of a sparse glyph's data in both tables (at a master the glyph is absent from the statement demands agreement, and no other value is given there); the midpoints go beyond the statement's 'every master location' and have their own key (..:off-master:..)");
    rep.assume("tolerance HVAR vs phantom points at a non-default location L: 0.5*sum of scalars at L of the HVAR regions that can carry a fractional delta + 0.5*the same sum over the glyph's gvar tuples + 1e-6 (each side rounds its own deltas once); heights: 0.5*(VVAR sum) + 1.0*(gvar sum), the advance height being the difference of two rounded phantom points; exact at the default location");
    rep.assume("the Glyphs 3 twin (spaces subsets/, sparse/, layer/, vert-sparse; designs the Glyphs format can express) is judged on advances only: the Glyphs writer of dgen does not carry the fontinfo keys of the metric alphabet; vertical metrics there come from the layers' vertWidth (all explicit in those spaces)");
    rep.assume("where fontinfo keys are omitted the compiler's ufo2ft-style fallback formulas decide the values; there only 'constant fontinfo => no MVAR delta' and the explicitly given xHeight/capHeight are judged. Exception: hhea caret rise/run with the keys omitted are judged against ufo2ft's fallback upem / round(upem*tan(-italicAngle))");
    rep.assume("vmtx advance of a glyph without a height attribute is 0 (UFO glif default)");
    rep.assume("tolerance at a non-default master: 0.5 + 0.5*sum of scalars of other regions that can carry a fractional delta + 1e-6 (derivation in the module doc); exact at the default location; phantom points vs HVAR/VVAR twice that");
    rep.finish()
}
