//! C14 — emitting IR is transparent and faithful.
//!
//! This file currently implements part (c) of the design, the *pure* injectivity sweep of the
//! file naming (no build is run):
//!   * `fontdrasil::paths::string_to_filename` over every string of <= 4 (thorough <= 5) symbols
//!     of the C14(c) alphabet: exact and ASCII-case-folded injectivity;
//!   * `fontir::paths::Paths::target_file` / `fontbe::paths::Paths::target_file` over every id
//!     that carries data (glyph / anchor / glyf fragment / gvar fragment names, kern fragment
//!     numbers, kern instance locations) plus every fixed id, all in ONE directory namespace
//!     (fontc hands the same `ir_dir` to the front end and the back end).
//!
//! `part_font` (equality of fonts with/without IR, read-back, dynamic id->path log) is added later.
use fontbe::orchestration::WorkId as BeId;
use fontdrasil::{
    coords::{NormalizedCoord, NormalizedLocation},
    paths::string_to_filename,
    types::GlyphName,
};
use fontir::orchestration::WorkId as FeId;
use serde_json::{Value, json};
use std::{
    collections::BTreeMap,
    panic::{AssertUnwindSafe, catch_unwind},
    path::{Path, PathBuf},
    str::FromStr,
};
use vcore::{Reporter, Tier};
use write_fonts::types::Tag;

/// The C14(c) alphabet; "con", "CON", "nul" are single symbols.
const ATOMS: [&str; 20] = [
    "a", "A", "b", "B", "_", ".", "/", ":", "*", "^", "%", "2", "E", "~", "é", "É", "ß", "con",
    "CON", "nul",
];

const DIR: &str = "/ir";

#[derive(Default)]
struct Stats {
    evaluations: u64,
    nontrivial: u64,
}

/// One violation class: how many cases, and the smallest case seen.
#[derive(Default)]
struct Classes(BTreeMap<String, (u64, String, Value, (usize, String))>);

impl Classes {
    /// `size` orders candidates for "minimal example".
    fn add(&mut self, key: &str, what: String, replay: Value, size: (usize, String)) {
        match self.0.get_mut(key) {
            Some(e) => {
                e.0 += 1;
                if size < e.3 {
                    e.1 = what;
                    e.2 = replay;
                    e.3 = size;
                }
            }
            None => {
                self.0.insert(key.to_string(), (1, what, replay, size));
            }
        }
    }
    fn report(self, rep: &mut Reporter) {
        for (key, (n, what, replay, _)) in self.0 {
            rep.violation(&key, &format!("{what} [{n} case(s) in this class]"), replay);
        }
    }
}

/// The i-th name of exactly `len` symbols (base-20 digits, most significant first).
fn name_of(len: usize, mut i: usize) -> String {
    let mut parts = vec![""; len];
    for k in (0..len).rev() {
        parts[k] = ATOMS[i % ATOMS.len()];
        i /= ATOMS.len();
    }
    parts.concat()
}

fn all_names(max_len: usize) -> Vec<String> {
    let mut v = vec![];
    for len in 0..=max_len {
        for i in 0..ATOMS.len().pow(len as u32) {
            v.push(name_of(len, i));
        }
    }
    // atoms of several letters never recombine into another atom sequence over this alphabet,
    // but do not rely on it
    v.sort();
    v.dedup();
    v
}

/// Lower-case only the non-ASCII letters: names equal under this map differ only in the case
/// of a non-ASCII letter.
fn fold_non_ascii(s: &str) -> String {
    s.chars()
        .flat_map(|c| {
            if c.is_ascii() {
                vec![c]
            } else {
                c.to_lowercase().collect::<Vec<_>>()
            }
        })
        .collect()
}

fn safe_s2f(name: &str, suffix: &str) -> Result<String, String> {
    catch_unwind(AssertUnwindSafe(|| string_to_filename(name, suffix))).map_err(panic_msg)
}

fn panic_msg(p: Box<dyn std::any::Any + Send>) -> String {
    p.downcast_ref::<String>()
        .cloned()
        .or(p.downcast_ref::<&str>().map(|s| s.to_string()))
        .unwrap_or_else(|| "panic".into())
}

/// Groups of equal keys in a vector sorted by key: calls `f` with each group of size > 1.
fn groups<'a>(sorted: &'a [(String, u32)], mut f: impl FnMut(&'a [(String, u32)])) {
    let mut i = 0;
    while i < sorted.len() {
        let mut j = i + 1;
        while j < sorted.len() && sorted[j].0 == sorted[i].0 {
            j += 1;
        }
        if j - i > 1 {
            f(&sorted[i..j]);
        }
        i = j;
    }
}

// ------------------------------------------------------------------ (c1) string_to_filename

fn sweep_names(max_len: usize, cls: &mut Classes, ev: &mut BTreeMap<String, Value>) -> Stats {
    let names = all_names(max_len);
    let threads = vcore::ncores();
    let chunk = 20_000;
    let n_chunks = names.len().div_ceil(chunk);
    let parts = vcore::par_for(n_chunks, threads, |c| {
        let lo = c * chunk;
        let hi = (lo + chunk).min(names.len());
        let mut out = Vec::with_capacity(hi - lo);
        let mut panics = vec![];
        for i in lo..hi {
            match safe_s2f(&names[i], ".yml") {
                Ok(f) => out.push((f, i as u32)),
                Err(m) => panics.push((i, m)),
            }
        }
        (out, panics)
    });
    let mut files: Vec<(String, u32)> = Vec::with_capacity(names.len());
    for (out, panics) in parts {
        files.extend(out);
        for (i, m) in panics {
            cls.add(
                "string-to-filename-panic",
                format!("string_to_filename({:?}) panics: {m}", names[i]),
                json!({"kind": "name-panic", "name": names[i]}),
                (names[i].len(), names[i].clone()),
            );
        }
    }
    let mut st = Stats {
        evaluations: files.len() as u64,
        ..Default::default()
    };
    let mut transformed = 0u64;
    let mut escaped = 0u64;
    let mut case_coded = 0u64;
    let mut reserved = 0u64;
    for (f, i) in &files {
        let n = &names[*i as usize];
        if *f != format!("{n}.yml") {
            transformed += 1;
        }
        if f.contains('%') {
            escaped += 1;
        }
        if f.contains('^') {
            case_coded += 1;
        }
        if matches!(n.to_ascii_lowercase().as_str(), "con" | "nul") {
            reserved += 1;
        }
    }
    st.nontrivial = transformed;

    // exact
    files.sort();
    let mut exact_pairs = 0u64;
    groups(&files, |g| {
        for w in g.windows(2) {
            exact_pairs += 1;
            let (a, b) = (&names[w[0].1 as usize], &names[w[1].1 as usize]);
            cls.add(
                "filename-collision-exact",
                format!("names {a:?} and {b:?} both map to file {:?}", w[0].0),
                json!({"kind": "names", "fold": "exact", "a": a, "b": b}),
                (a.len() + b.len(), format!("{a}\u{0}{b}")),
            );
        }
    });

    // ASCII case folding of the file name (case-insensitive, ASCII-only-folding file systems)
    let mut folded: Vec<(String, u32)> = files
        .iter()
        .map(|(f, i)| (f.to_ascii_lowercase(), *i))
        .collect();
    folded.sort();
    let mut ascii_pairs = 0u64;
    groups(&folded, |g| {
        for w in g.windows(2) {
            let (a, b) = (&names[w[0].1 as usize], &names[w[1].1 as usize]);
            ascii_pairs += 1;
            cls.add(
                "filename-collision-ascii-casefold",
                format!(
                    "names {a:?} and {b:?} map to files that differ only in ASCII case: {:?}",
                    w[0].0
                ),
                json!({"kind": "names", "fold": "ascii", "a": a, "b": b}),
                (a.len() + b.len(), format!("{a}\u{0}{b}")),
            );
        }
    });

    // Unicode lower-casing of the file name: recorded, asserted only when the two names differ
    // in more than the case of non-ASCII letters.
    let mut ufolded: Vec<(String, u32)> = files.iter().map(|(f, i)| (f.to_lowercase(), *i)).collect();
    drop(folded);
    ufolded.sort();
    let mut non_ascii_pairs = 0u64;
    let mut non_ascii_samples = vec![];
    groups(&ufolded, |g| {
        for w in g.windows(2) {
            let (a, b) = (&names[w[0].1 as usize], &names[w[1].1 as usize]);
            if fold_non_ascii(a) == fold_non_ascii(b) {
                non_ascii_pairs += 1;
                if non_ascii_samples.len() < 4 || (non_ascii_samples.len() < 6 && a.len() > 6) {
                    non_ascii_samples.push(json!({"a": a, "b": b,
                        "file_a": string_to_filename(a, ".yml"), "file_b": string_to_filename(b, ".yml")}));
                }
            } else {
                // an ASCII-fold collision was already reported above; anything else here is new
                let fa = string_to_filename(a, ".yml");
                let fb = string_to_filename(b, ".yml");
                if fa.to_ascii_lowercase() != fb.to_ascii_lowercase() {
                    cls.add(
                        "filename-collision-unicode-casefold",
                        format!("names {a:?} and {b:?} (not a pure non-ASCII case difference) map to {fa:?} / {fb:?}, equal after Unicode lower-casing"),
                        json!({"kind": "names", "fold": "unicode", "a": a, "b": b}),
                        (a.len() + b.len(), format!("{a}\u{0}{b}")),
                    );
                }
            }
        }
    });

    let mid = &names[names.len() / 2];
    let last = names.iter().max_by_key(|n| n.len()).unwrap();
    ev.insert(
        "string_to_filename".into(),
        json!({
            "alphabet": ATOMS, "max_symbols": max_len, "names": names.len(),
            "file_name_not_name_plus_suffix": transformed,
            "with_percent_escape": escaped, "with_case_code": case_coded, "reserved_device_names": reserved,
            "exact_collision_pairs": exact_pairs,
            "ascii_casefold_collision_pairs": ascii_pairs,
            "non_ascii_case_only_pairs_not_asserted": non_ascii_pairs,
            "non_ascii_case_only_samples": non_ascii_samples,
            "samples": [
                {"name": "A", "file": string_to_filename("A", ".yml")},
                {"name": "con", "file": string_to_filename("con", ".yml")},
                {"name": mid, "file": string_to_filename(mid, ".yml")},
                {"name": last, "file": string_to_filename(last, ".yml")},
            ],
        }),
    );
    st
}

// ------------------------------------------------------------------ (c2) target_file over ids

/// A serialisable description of one work id, FE or BE.
#[derive(Clone, Debug, PartialEq)]
enum Id {
    FeNamed(&'static str, String),
    BeNamed(&'static str, String),
    KernFragment(usize),
    KernInstance(Vec<(String, f64)>),
    FeFixed(String),
    BeFixed(String),
}

fn fe_fixed() -> Vec<FeId> {
    vec![
        FeId::StaticMetadata,
        FeId::GlobalMetrics,
        FeId::PreliminaryGlyphOrder,
        FeId::GlyphOrder,
        FeId::PreliminaryGdefCategories,
        FeId::GdefCategories,
        FeId::Features,
        FeId::KerningLocations,
        FeId::ColorPalettes,
        FeId::PaintGraph,
    ]
}

fn be_fixed() -> Vec<BeId> {
    use BeId::*;
    vec![
        Features, FeaturesAst, Avar, Cmap, Colr, Cpal, Font, Fvar, Gasp, Glyf, Gpos, Gsub, Gdef,
        Gvar, Head, Hhea, Hmtx, Hvar, Meta, Vhea, Vmtx, Vvar, GatherIrKerning, GatherBeKerning,
        Loca, LocaFormat, Marks, Maxp, Mvar, Name, Os2, Post, Stat, ExtraFeaTables,
    ]
}

fn location(loc: &[(String, f64)]) -> NormalizedLocation {
    loc.iter()
        .map(|(t, v)| (Tag::from_str(t).unwrap(), NormalizedCoord::new(*v)))
        .collect::<Vec<_>>()
        .into()
}

impl Id {
    fn kind(&self) -> String {
        match self {
            Id::FeNamed(k, _) | Id::BeNamed(k, _) => k.to_string(),
            Id::KernFragment(_) => "KernFragment".into(),
            Id::KernInstance(_) => "KernInstance".into(),
            Id::FeFixed(n) => format!("fe:{n}"),
            Id::BeFixed(n) => format!("be:{n}"),
        }
    }
    fn size(&self) -> usize {
        match self {
            Id::FeNamed(_, n) | Id::BeNamed(_, n) => n.len(),
            Id::KernFragment(n) => *n,
            Id::KernInstance(l) => {
                l.len() * 1_000_000 + l.iter().map(|(_, v)| (v.abs() * 1000.0).round() as usize).sum::<usize>()
            }
            _ => 0,
        }
    }
    fn to_json(&self) -> Value {
        match self {
            Id::FeNamed(k, n) => json!({"space": "fe", "variant": k, "name": n}),
            Id::BeNamed(k, n) => json!({"space": "be", "variant": k, "name": n}),
            Id::KernFragment(n) => json!({"space": "be", "variant": "KernFragment", "n": n}),
            Id::KernInstance(l) => json!({"space": "fe", "variant": "KernInstance", "location": l}),
            Id::FeFixed(n) => json!({"space": "fe", "variant": n}),
            Id::BeFixed(n) => json!({"space": "be", "variant": n}),
        }
    }
    fn from_json(v: &Value) -> Option<Id> {
        let space = v.get("space")?.as_str()?;
        let variant = v.get("variant")?.as_str()?;
        if let Some(n) = v.get("name").and_then(|n| n.as_str()) {
            let k: &'static str = ["Glyph", "Anchor", "GlyfFragment", "GvarFragment"]
                .into_iter()
                .find(|k| *k == variant)?;
            return Some(if space == "fe" {
                Id::FeNamed(k, n.to_string())
            } else {
                Id::BeNamed(k, n.to_string())
            });
        }
        if variant == "KernFragment" {
            return Some(Id::KernFragment(v.get("n")?.as_u64()? as usize));
        }
        if variant == "KernInstance" {
            let l = v
                .get("location")?
                .as_array()?
                .iter()
                .filter_map(|e| Some((e.get(0)?.as_str()?.to_string(), e.get(1)?.as_f64()?)))
                .collect();
            return Some(Id::KernInstance(l));
        }
        Some(if space == "fe" {
            Id::FeFixed(variant.to_string())
        } else {
            Id::BeFixed(variant.to_string())
        })
    }
    /// The path the real code assigns (None: the id cannot be rebuilt, e.g. unknown fixed name).
    fn path(&self) -> Option<PathBuf> {
        let dir = Path::new(DIR);
        Some(match self {
            Id::FeNamed("Glyph", n) => {
                fontir::paths::Paths::target_file(dir, &FeId::Glyph(GlyphName::new(n)))
            }
            Id::FeNamed("Anchor", n) => {
                fontir::paths::Paths::target_file(dir, &FeId::Anchor(GlyphName::new(n)))
            }
            Id::BeNamed("GlyfFragment", n) => {
                fontbe::paths::Paths::target_file(dir, &BeId::GlyfFragment(GlyphName::new(n)))
            }
            Id::BeNamed("GvarFragment", n) => {
                fontbe::paths::Paths::target_file(dir, &BeId::GvarFragment(GlyphName::new(n)))
            }
            Id::KernFragment(n) => fontbe::paths::Paths::target_file(dir, &BeId::KernFragment(*n)),
            Id::KernInstance(l) => {
                fontir::paths::Paths::target_file(dir, &FeId::KernInstance(location(l)))
            }
            Id::FeFixed(n) => {
                let id = fe_fixed().into_iter().find(|i| format!("{i:?}") == *n)?;
                fontir::paths::Paths::target_file(dir, &id)
            }
            Id::BeFixed(n) => {
                let id = be_fixed().into_iter().find(|i| format!("{i:?}") == *n)?;
                fontbe::paths::Paths::target_file(dir, &id)
            }
            _ => return None,
        })
    }
}

fn collision_key(a: &Id, b: &Id, folded: bool) -> String {
    if matches!((a, b), (Id::KernInstance(_), Id::KernInstance(_))) && !folded {
        return "kern-instance-filename-collision".into();
    }
    let (mut ka, mut kb) = (a.kind(), b.kind());
    if kb < ka {
        std::mem::swap(&mut ka, &mut kb);
    }
    format!(
        "ir-path-collision{}:{ka}/{kb}",
        if folded { "-ascii-casefold" } else { "" }
    )
}

fn sweep_ids(tier: Tier, cls: &mut Classes, ev: &mut BTreeMap<String, Value>) -> Stats {
    let name_len = tier.pick(3, 4);
    let names = all_names(name_len);
    let mut ids: Vec<Id> = vec![];
    for n in names.iter().filter(|n| !n.is_empty()) {
        ids.push(Id::FeNamed("Glyph", n.clone()));
        ids.push(Id::FeNamed("Anchor", n.clone()));
        ids.push(Id::BeNamed("GlyfFragment", n.clone()));
        ids.push(Id::BeNamed("GvarFragment", n.clone()));
    }
    let named = ids.len();
    let n_frag = tier.pick(20_000, 1_000_000);
    ids.extend((0..n_frag).map(Id::KernFragment));
    ids.extend(fe_fixed().iter().map(|i| Id::FeFixed(format!("{i:?}"))));
    ids.extend(be_fixed().iter().map(|i| Id::BeFixed(format!("{i:?}"))));
    // kern instances: 1 axis on the 0.001 grid (two different tags), 2 axes on a coarser grid
    let before_kern = ids.len();
    for tag in ["wght", "wdth"] {
        for i in -1000..=1000 {
            ids.push(Id::KernInstance(vec![(tag.to_string(), i as f64 / 1000.0)]));
        }
    }
    let one_axis = ids.len() - before_kern;
    let step2 = tier.pick(20, 4); // in 1/1000
    let mut i = -1000;
    while i <= 1000 {
        let mut j = -1000;
        while j <= 1000 {
            ids.push(Id::KernInstance(vec![
                ("wdth".to_string(), i as f64 / 1000.0),
                ("wght".to_string(), j as f64 / 1000.0),
            ]));
            j += step2;
        }
        i += step2;
    }
    let two_axis = ids.len() - before_kern - one_axis;

    let threads = vcore::ncores();
    let chunk = 10_000;
    let parts = vcore::par_for(ids.len().div_ceil(chunk), threads, |c| {
        let lo = c * chunk;
        let hi = (lo + chunk).min(ids.len());
        (lo..hi)
            .map(|i| {
                catch_unwind(AssertUnwindSafe(|| ids[i].path()))
                    .map_err(panic_msg)
                    .map(|p| p.map(|p| p.to_string_lossy().into_owned()))
            })
            .collect::<Vec<_>>()
    });
    let mut paths: Vec<(String, u32)> = Vec::with_capacity(ids.len());
    for (i, r) in parts.into_iter().flatten().enumerate() {
        match r {
            Ok(Some(p)) => paths.push((p, i as u32)),
            Ok(None) => vcore::machinery_error(&format!("cannot build id {:?}", ids[i])),
            Err(m) => cls.add(
                &format!("target-file-panic:{}", ids[i].kind()),
                format!("target_file({:?}) panics: {m}", ids[i]),
                json!({"kind": "id-panic", "id": ids[i].to_json()}),
                (ids[i].size(), String::new()),
            ),
        }
    }
    let evaluations = paths.len() as u64;

    // data-carrying ids must stay inside the build directory they are given
    let mut escapes = 0u64;
    for (p, i) in &paths {
        let rel = p.strip_prefix(DIR).unwrap_or(p).trim_start_matches('/');
        let depth = rel.matches('/').count();
        let expected_depth = match &ids[*i as usize] {
            Id::FeNamed(..) | Id::BeNamed(..) => 1,
            _ => 0,
        };
        if depth != expected_depth || rel.split('/').any(|c| c == ".." || c == "." || c.is_empty()) {
            escapes += 1;
            cls.add(
                &format!("ir-path-shape:{}", ids[*i as usize].kind()),
                format!("id {:?} is written to {p:?}: not a plain file name in its directory", ids[*i as usize]),
                json!({"kind": "id-shape", "id": ids[*i as usize].to_json()}),
                (ids[*i as usize].size(), String::new()),
            );
        }
    }

    let mut pair_counts: BTreeMap<String, u64> = BTreeMap::new();
    let mut judge = |sorted: &[(String, u32)], folded: bool, cls: &mut Classes| {
        groups(sorted, |g| {
            // every pair in the group collides; count them all, describe adjacent ones
            let m = g.len() as u64;
            let (a0, b0) = (&ids[g[0].1 as usize], &ids[g[1].1 as usize]);
            *pair_counts.entry(collision_key(a0, b0, folded)).or_default() += m * (m - 1) / 2;
            for w in g.windows(2) {
                let (a, b) = (&ids[w[0].1 as usize], &ids[w[1].1 as usize]);
                let (a, b) = if b.size() < a.size() { (b, a) } else { (a, b) };
                cls.add(
                    &collision_key(a, b, folded),
                    format!(
                        "distinct work ids {a:?} and {b:?} are both persisted to {:?}{}",
                        w[0].0,
                        if folded { " (after ASCII case folding)" } else { "" }
                    ),
                    json!({"kind": "ids", "fold": if folded { "ascii" } else { "exact" },
                        "a": a.to_json(), "b": b.to_json()}),
                    // ties: prefer the conventional tag in the written-out example
                    (a.size() + b.size(), format!("{:?}{:?}", a, b).replace("wght", "!wght")),
                );
            }
        });
    };
    paths.sort();
    judge(&paths, false, cls);
    // case-insensitive file systems; exact collisions are excluded by construction of the key
    let mut folded: Vec<(String, u32)> = Vec::with_capacity(paths.len());
    {
        // keep one representative per exact path so that an exact collision is not reported twice
        let mut last: Option<&str> = None;
        for (p, i) in &paths {
            if last != Some(p.as_str()) {
                folded.push((p.to_ascii_lowercase(), *i));
            }
            last = Some(p.as_str());
        }
    }
    folded.sort();
    judge(&folded, true, cls);

    let n1 = 2001u64;
    let per_axis2 = (2000 / step2 + 1) as u64;
    let n2 = per_axis2 * per_axis2;
    // pairs of locations closer than 0.01 on every axis: the ones a 2-decimal name can confuse
    let close_1 = |n: u64| -> u64 { (1..10).map(|d| n - d).sum() };
    let close_pairs_1axis = 2 * close_1(n1);
    let span = (9 / step2 as u64) as i64; // max index distance with |delta| < 0.01
    let mut close_pairs_2axis = 0u64;
    for dx in -span..=span {
        for dy in -span..=span {
            if (dx, dy) > (0, 0) {
                close_pairs_2axis +=
                    (per_axis2 - dx.unsigned_abs()) * (per_axis2 - dy.unsigned_abs());
            }
        }
    }
    ev.insert(
        "target_file".into(),
        json!({
            "one_namespace": "fontc passes the same ir_dir to the FE and BE persistent storage",
            "ids": ids.len(), "named_ids": named, "name_max_symbols": name_len,
            "kern_fragment_numbers": n_frag,
            "fixed_ids": fe_fixed().len() + be_fixed().len(),
            "kern_instance_locations_1_axis": one_axis,
            "kern_instance_location_pairs_1_axis": 2 * (n1 * (n1 - 1) / 2),
            "kern_instance_grid_2_axes": format!("{}/1000", step2),
            "kern_instance_locations_2_axes": two_axis,
            "kern_instance_location_pairs_2_axes": n2 * (n2 - 1) / 2,
            "kern_location_pairs_closer_than_0.01": close_pairs_1axis + close_pairs_2axis,
            "colliding_pairs_by_class": pair_counts,
            "paths_not_plain_files": escapes,
            "samples": [
                {"id": ids[0].to_json(), "path": ids[0].path()},
                {"id": ids[named - 1].to_json(), "path": ids[named - 1].path()},
                {"id": ids[before_kern + 1501].to_json(), "path": ids[before_kern + 1501].path()},
                {"id": ids[ids.len() - 1].to_json(), "path": ids[ids.len() - 1].path()},
            ],
        }),
    );
    Stats {
        evaluations,
        nontrivial: close_pairs_1axis + close_pairs_2axis,
    }
}

// ------------------------------------------------------------------ driver

fn part_pure(rep: &mut Reporter, tier: Tier) -> Stats {
    let mut cls = Classes::default();
    let mut ev = BTreeMap::new();
    let a = sweep_names(tier.pick(4, 5), &mut cls, &mut ev);
    let b = sweep_ids(tier, &mut cls, &mut ev);
    cls.report(rep);
    let mut samples = vec![];
    for v in ev.values() {
        if let Some(a) = v.get("samples").and_then(|s| s.as_array()) {
            samples.extend(a.iter().cloned());
        }
    }
    rep.set("samples", samples);
    for (k, v) in ev {
        rep.set(&k, v);
    }
    rep.set("names_with_transformed_file_name", a.nontrivial);
    rep.set("kern_location_pairs_within_two_decimals", b.nontrivial);
    rep.assume("part (c) only: names are strings over the 20-symbol alphabet of DESIGN C14(c) up to the stated length; other characters (e.g. other reserved punctuation, control characters) are not enumerated");
    rep.assume("case-insensitive file systems are modelled by ASCII case folding of the produced path; Unicode-aware folding (É/é, and full folding such as ß/ss) is recorded in evidence, not asserted");
    rep.assume("kern instance locations: 1 axis on the 0.001 grid (tags wght, wdth), 2 axes on the stated coarser grid; axis tags made of characters that are themselves unsafe in file names are not enumerated");
    Stats {
        evaluations: a.evaluations + b.evaluations,
        nontrivial: a.nontrivial + b.nontrivial,
    }
}


// ================================================================== parts (a), (b), (d): real builds
//
// (a) the font is the same with and without IR emission (in process, and the product binary with
//     and without --emit-ir);
// (b) every item written to the IR directory reads back equal (the `Persisted` hook events);
// (d) every persisted id has a file of its own and no other files appear.

use fontdrasil::verif::{Ev, Hooks, Op};
use std::sync::{Arc, Mutex};

struct Recorder {
    events: Mutex<Vec<(String, String, bool)>>,
}

impl Hooks for Recorder {
    fn point(&self, _op: Op) {}
    fn event(&self, ev: Ev) {
        if let Ev::Persisted { id, path, ok } = ev {
            self.events.lock().unwrap().push((id, path, ok));
        }
    }
    fn spawn(&self, f: Box<dyn FnOnce() + Send + 'static>) {
        f()
    }
    fn join_all(&self) {}
}

fn rect_layer(adv: f64, w: f64, anchors: &[(&str, f64, f64)]) -> dgen::Layer {
    dgen::Layer {
        advance: adv,
        contours: vec![dgen::shapes::rect(50.0, 0.0, 50.0 + w, 600.0)],
        anchors: anchors.iter().map(|(n, x, y)| dgen::Anchor { name: n.to_string(), x: *x, y: *y }).collect(),
        ..Default::default()
    }
}

/// Glyph names that stress the file naming on a real build: case-only differences, reserved
/// device names, dots and underscores; anchors and kerning so that every named id kind is written.
fn names_design() -> dgen::Design {
    use dgen::*;
    let mut d = Design::skeleton("NamesC14", vec![Axis::new("wght", "Weight", 400.0, 400.0, 700.0)], vec![vec![400.0], vec![700.0]]);
    let names: [(&str, &[u32]); 9] = [
        ("a", &[0x61]), ("A", &[0x41]), ("con", &[]), ("CON", &[]), ("nul", &[]), ("a.b", &[]), ("a_b", &[]), ("A_", &[]), ("acutecomb", &[0x301]),
    ];
    for (gi, (n, cps)) in names.iter().enumerate() {
        let mut g = Glyph::new(n, cps);
        for m in 0..2 {
            let w = 200.0 + 10.0 * gi as f64 + 30.0 * m as f64;
            let anchors: Vec<(&str, f64, f64)> = if *n == "acutecomb" { vec![("_top", 100.0, 500.0)] } else { vec![("top", w / 2.0, 600.0 + m as f64)] };
            g.layers.insert(m, rect_layer(w + 100.0, w, &anchors));
        }
        d.glyphs.push(g);
    }
    d.categories.insert("acutecomb".into(), "mark".into());
    for m in 0..2 {
        let k = m as f64;
        d.masters[m].kerning.insert(("a".into(), "A".into()), -30.0 - 10.0 * k);
        d.masters[m].kerning.insert(("con".into(), "nul".into()), -20.0 - 5.0 * k);
        d.masters[m].kerning.insert(("A_".into(), "a_b".into()), 15.0 + k);
    }
    d
}

/// Kerning masters at normalized 0.501 and 0.504: two kerning instances whose locations agree to
/// two decimals (the regression guard for the kern-instance file name).
fn closekern_design() -> dgen::Design {
    use dgen::*;
    let locs = [0.0, 501.0, 504.0, 1000.0];
    let mut d = Design::skeleton("CloseKernC14", vec![Axis::new("wght", "Weight", 0.0, 0.0, 1000.0)], locs.iter().map(|l| vec![*l]).collect());
    for (gi, (n, cp)) in [("A", 0x41u32), ("V", 0x56), ("T", 0x54)].iter().enumerate() {
        let mut g = Glyph::new(n, &[*cp]);
        for (m, l) in locs.iter().enumerate() {
            let w = 300.0 + 20.0 * gi as f64 + l / 10.0;
            g.layers.insert(m, rect_layer(w + 100.0, w, &[]));
        }
        d.glyphs.push(g);
    }
    for (m, l) in locs.iter().enumerate() {
        d.masters[m].kerning.insert(("A".into(), "V".into()), -40.0 - l / 20.0 - if m == 2 { 7.0 } else { 0.0 });
        d.masters[m].kerning.insert(("T".into(), "A".into()), -30.0 - l / 25.0);
    }
    d
}

#[derive(Clone, Debug)]
enum SrcKind {
    Generated(&'static str),
    Fixture(String),
}

struct Source {
    name: String,
    kind: SrcKind,
    path: PathBuf,
}

fn generated(name: &str) -> Option<dgen::Design> {
    Some(match name {
        "J0" => checks::sources::j0(),
        "J1" => checks::sources::j1(),
        "J2" => checks::sources::j2(),
        "names" => names_design(),
        "closekern" => closekern_design(),
        _ => return None,
    })
}

const GENERATED: [&str; 5] = ["J0", "J1", "J2", "names", "closekern"];
const FIXTURES_QUICK: [&str; 6] = [
    "wght_var.designspace",
    "glyphs3/WghtVar.glyphs",
    "MVAR.designspace",
    "dspace_rules/Basic.designspace",
    "glyphs3/COLRv1-gradient.glyphs",
    "COLRv0-multi-palette.ufo",
];

fn fixture_root() -> PathBuf {
    Path::new(vcore::REPO).join("resources/testdata")
}

fn all_fixtures() -> Vec<String> {
    let root = fixture_root();
    let mut out = vec![];
    for sub in ["", "glyphs2", "glyphs3", "dspace_rules", "designspace_from_glyphs"] {
        let dir = if sub.is_empty() { root.clone() } else { root.join(sub) };
        let Ok(rd) = std::fs::read_dir(&dir) else { continue };
        for e in rd.flatten() {
            let n = e.file_name().to_string_lossy().into_owned();
            if [".designspace", ".glyphs", ".glyphspackage", ".ufo"].iter().any(|x| n.ends_with(x)) {
                out.push(if sub.is_empty() { n } else { format!("{sub}/{n}") });
            }
        }
    }
    out.sort();
    out
}

fn option_sets() -> Vec<fcx::Opts> {
    let d = fcx::Opts::default;
    vec![
        d(),
        fcx::Opts { flatten: true, ..d() },
        fcx::Opts { decompose: true, ..d() },
        fcx::Opts { no_production_names: true, ..d() },
        fcx::Opts { skip_features: true, ..d() },
        fcx::Opts { keep_direction: true, ..d() },
    ]
}

fn count_files(dir: &Path, rel: &str, out: &mut Vec<String>) {
    if let Ok(rd) = std::fs::read_dir(dir) {
        for e in rd.flatten() {
            let n = e.file_name().to_string_lossy().into_owned();
            let p = e.path();
            let r = if rel.is_empty() { n.clone() } else { format!("{rel}/{n}") };
            if p.is_dir() {
                count_files(&p, &r, out);
            } else {
                out.push(r);
            }
        }
    }
}

fn failure_text(f: &fcx::Failure) -> String {
    match f {
        fcx::Failure::Error(e) => format!("error: {e}"),
        fcx::Failure::Panic(e) => format!("panic: {e}"),
    }
}

#[derive(Default, Clone)]
struct BCounts {
    cases: u64,
    built: u64,
    not_buildable: u64,
    inproc_pairs_equal: u64,
    product_pairs_equal: u64,
    product_reused_dir_equal: u64,
    product_not_buildable: u64,
    persisted_events: u64,
    persisted_eq: u64,
    persisted_bytes: u64,
    exempt_events: u64,
    distinct_ids: u64,
    files: u64,
    named_ids: u64,
    kern_instance_ids: u64,
    cases_with_data_ids: u64,
    marker_files: u64,
    order_only_byte_differences: u64,
    eq_false_but_file_is_the_font_table: u64,
    product_ms: u64,
    inproc_ms: u64,
}

impl BCounts {
    fn add(&mut self, o: &BCounts) {
        self.cases += o.cases;
        self.built += o.built;
        self.not_buildable += o.not_buildable;
        self.inproc_pairs_equal += o.inproc_pairs_equal;
        self.product_pairs_equal += o.product_pairs_equal;
        self.product_reused_dir_equal += o.product_reused_dir_equal;
        self.product_not_buildable += o.product_not_buildable;
        self.persisted_events += o.persisted_events;
        self.persisted_eq += o.persisted_eq;
        self.persisted_bytes += o.persisted_bytes;
        self.exempt_events += o.exempt_events;
        self.distinct_ids += o.distinct_ids;
        self.files += o.files;
        self.named_ids += o.named_ids;
        self.kern_instance_ids += o.kern_instance_ids;
        self.cases_with_data_ids += o.cases_with_data_ids;
        self.marker_files += o.marker_files;
        self.order_only_byte_differences += o.order_only_byte_differences;
        self.eq_false_but_file_is_the_font_table += o.eq_false_but_file_is_the_font_table;
        self.product_ms += o.product_ms;
        self.inproc_ms += o.inproc_ms;
    }
}

/// The documented id-less file: `features.marker` ("if the file exists features were compiled",
/// fontbe/src/features.rs) is written directly, not through a context item.
const MARKER: &str = "features.marker";
/// The documented session-only field: ExtraFeaTables.os2_builder is `#[serde(skip)]` / "not
/// persisted" (fontbe/src/orchestration.rs), so this one id may read back unequal.
const EXEMPT_ID: &str = "ExtraFeaTables";
/// BE ids that are single tables: id kind -> table tag (file `<kind lower-cased>.table`).
const TABLE_IDS: [(&str, &[u8; 4]); 26] = [
    ("Avar", b"avar"), ("Cmap", b"cmap"), ("Colr", b"COLR"), ("Cpal", b"CPAL"), ("Fvar", b"fvar"), ("Gasp", b"gasp"),
    ("Glyf", b"glyf"), ("Gpos", b"GPOS"), ("Gsub", b"GSUB"), ("Gdef", b"GDEF"), ("Gvar", b"gvar"), ("Head", b"head"),
    ("Hhea", b"hhea"), ("Hmtx", b"hmtx"), ("Hvar", b"HVAR"), ("Loca", b"loca"), ("Maxp", b"maxp"), ("Meta", b"meta"),
    ("Mvar", b"MVAR"), ("Name", b"name"), ("Os2", b"OS/2"), ("Post", b"post"), ("Stat", b"STAT"), ("Vhea", b"vhea"),
    ("Vmtx", b"vmtx"), ("Vvar", b"VVAR"),
];

/// The option set as arguments of the product binary (clap: plain flags except the tri-state ones).
fn cli_args(o: &fcx::Opts) -> Vec<String> {
    let mut v = vec![];
    if o.flatten {
        v.push("--flatten-components=true".to_string())
    }
    if o.decompose {
        v.push("--decompose-components".to_string())
    }
    if o.decompose_transformed {
        v.push("--decompose-transformed-components".to_string())
    }
    if o.no_prefer_simple {
        v.push("--prefer-simple-glyphs=false".to_string())
    }
    if o.keep_direction {
        v.push("--keep-direction".to_string())
    }
    if o.no_production_names {
        v.push("--no-production-names".to_string())
    }
    if o.skip_features {
        v.push("--skip-features".to_string())
    }
    v
}

/// One (source, option set): all sub-checks. Findings: (class key, message).
fn check_build(src_name: &str, path: &Path, opts: &fcx::Opts, product: bool, cnt: &mut BCounts, sample: Option<&mut Vec<Value>>) -> Vec<(String, String)> {
    let mut bad: Vec<(String, String)> = vec![];
    cnt.cases += 1;
    let on = opts.name();
    // (a) in process
    let t_in = std::time::Instant::now();
    let plain = fcx::compile(path, opts, None);
    let ir = vcore::Scratch::new("c14-ir");
    let rec = Arc::new(Recorder { events: Mutex::new(vec![]) });
    fontdrasil::verif::install(Some(rec.clone()));
    let with_ir = fcx::compile(path, opts, Some(ir.path()));
    fontdrasil::verif::install(None);
    let events = std::mem::take(&mut *rec.events.lock().unwrap());
    cnt.inproc_ms += t_in.elapsed().as_millis() as u64;
    match (&plain, &with_ir) {
        (Ok(a), Ok(b)) => {
            cnt.built += 1;
            if a == b {
                cnt.inproc_pairs_equal += 1;
            } else {
                let at = a.iter().zip(b.iter()).position(|(x, y)| x != y).unwrap_or(a.len().min(b.len()));
                bad.push(("font-differs-with-ir:in-process".into(), format!("{} and {} bytes, first difference at offset {at}", a.len(), b.len())));
            }
        }
        (Err(a), Err(b)) => {
            cnt.not_buildable += 1;
            if std::mem::discriminant(a) != std::mem::discriminant(b) {
                bad.push(("outcome-differs-with-ir:in-process".into(), format!("without IR: {}; with IR: {}", failure_text(a), failure_text(b))));
            }
        }
        (Ok(_), Err(e)) => bad.push(("build-fails-only-with-ir:in-process".into(), failure_text(e))),
        (Err(e), Ok(_)) => bad.push(("build-fails-only-without-ir:in-process".into(), failure_text(e))),
    }
    // (b) read back. Per id: the verdict of `==` where the hook could use it, else of the
    // re-serialised bytes. Two things are not failures of the property and are sorted out here:
    //  * re-serialised bytes differ but `==` holds: IR structs hold HashMaps, whose iteration
    //    order differs between the value in memory and the one read back;
    //  * `==` fails for a binary table although the file holds exactly the bytes that end up in
    //    the font: write-fonts tables are not in canonical form before they are dumped.
    cnt.persisted_events += events.len() as u64;
    // id -> (eq verdicts, bytes verdicts)
    let mut ids: BTreeMap<&str, (Vec<bool>, Vec<bool>)> = BTreeMap::new();
    let mut kern_instance_writes = 0usize;
    for (id, how, ok) in &events {
        let e = ids.entry(id.as_str()).or_default();
        if how == "eq" {
            cnt.persisted_eq += 1;
            e.0.push(*ok);
        } else {
            cnt.persisted_bytes += 1;
            e.1.push(*ok);
            if id.contains("KernInstance(") {
                kern_instance_writes += 1;
            }
        }
    }
    let font_tables = plain.as_ref().ok().and_then(|b| write_fonts::read::FontRef::new(b).ok());
    for (id, (eqs, bytes)) in &ids {
        // class: the id kind (text before the first argument of the innermost id)
        let kind: String = id.replace("Fe(", "").replace("Be(", "").split('(').next().unwrap_or("").trim_end_matches(')').to_string();
        if id.contains(EXEMPT_ID) {
            cnt.exempt_events += eqs.iter().chain(bytes).filter(|ok| !**ok).count() as u64;
            continue;
        }
        if !eqs.is_empty() {
            if eqs.iter().all(|ok| *ok) {
                if bytes.iter().any(|ok| !*ok) {
                    cnt.order_only_byte_differences += 1;
                }
                continue;
            }
            // `==` failed: a binary table whose file is byte-identical to the table in the font?
            let tag = TABLE_IDS.iter().find(|(k, _)| *k == kind).map(|(_, t)| *t);
            let file = ir.path().join(format!("{}.table", kind.to_lowercase()));
            let same_as_font = match (tag, &font_tables, std::fs::read(&file)) {
                (Some(tag), Some(f), Ok(on_disk)) => {
                    use write_fonts::read::TableProvider;
                    let _ = f.head();
                    f.table_data(Tag::new(tag)).map(|d| d.as_bytes() == on_disk.as_slice()).unwrap_or(false)
                }
                _ => false,
            };
            if same_as_font {
                cnt.eq_false_but_file_is_the_font_table += 1;
            } else {
                bad.push((format!("ir-readback-differs:{kind}"), format!("{id} written to the IR directory does not read back equal (`==` on the value read back fails{})",
                    if tag.is_some() { " and the file is not byte-identical to that table of the font" } else { "" })));
            }
        } else if bytes.iter().any(|ok| !*ok) {
            // no `==` available: does the real reader even accept the file?
            let mut what = "re-serialising the value read back gives other bytes".to_string();
            let mut key = format!("ir-readback-differs:{kind}");
            if kind == "GlyfFragment" {
                let name = id.trim_start_matches("Be(GlyfFragment(").trim_end_matches("))");
                let file = ir.path().join("glyphs").join(string_to_filename(name, ".glyf"));
                if let Ok(on_disk) = std::fs::read(&file) {
                    use fontir::orchestration::Persistable;
                    let r = catch_unwind(AssertUnwindSafe(|| {
                        let _ = <fontbe::orchestration::Glyph as Persistable>::read(&mut on_disk.as_slice());
                    }));
                    if let Err(p) = r {
                        key = format!("ir-readback-panics:{kind}");
                        what = format!("the reader panics on the {}-byte file {:?}: {}", on_disk.len(), file.file_name().unwrap_or_default(), panic_msg(p));
                    }
                }
            }
            bad.push((key, format!("{id} written to the IR directory does not read back: {what}")));
        }
    }
    // (d) one file per id, no other files
    if with_ir.is_ok() {
        let mut files = vec![];
        count_files(ir.path(), "", &mut files);
        let marker = files.iter().filter(|f| *f == MARKER).count();
        cnt.marker_files += marker as u64;
        let data_files = files.len() - marker;
        // kerning-instance ids print their location with two decimals, so two of them can share a
        // Debug string: count their writes instead (one write per instance)
        let kern_strings = ids.keys().filter(|i| i.contains("KernInstance(")).count();
        let id_count = ids.len() - kern_strings + kern_instance_writes;
        cnt.distinct_ids += id_count as u64;
        cnt.files += data_files as u64;
        let named = ids.keys().filter(|i| ["Glyph(", "Anchor(", "GlyfFragment(", "GvarFragment("].iter().any(|k| i.contains(k))).count();
        let kern_ids = kern_instance_writes;
        let kern_files = files.iter().filter(|f| f.starts_with("kern_") && f.ends_with(".yml") && *f != "kern_locations.yml").count();
        cnt.named_ids += named as u64;
        cnt.kern_instance_ids += kern_ids as u64;
        if named + kern_ids > 0 {
            cnt.cases_with_data_ids += 1;
        }
        if kern_files < kern_ids {
            bad.push(("kern-instance-filename-collision".into(), format!("{kern_ids} kerning instances were persisted into {kern_files} files: {:?}", files.iter().filter(|f| f.starts_with("kern_")).collect::<Vec<_>>())));
        } else if data_files < id_count {
            let mut listing = files.clone();
            listing.sort();
            bad.push(("ir-ids-share-a-file".into(), format!("{id_count} distinct ids were persisted but the IR directory holds {data_files} files (besides {MARKER}): ids {:?}; files {listing:?}", ids.keys().collect::<Vec<_>>())));
        } else if data_files > id_count {
            let mut listing = files.clone();
            listing.sort();
            bad.push(("ir-file-without-id".into(), format!("{data_files} files (besides {MARKER}) for {id_count} persisted ids: ids {:?}; files {listing:?}", ids.keys().collect::<Vec<_>>())));
        }
        if let Some(s) = sample {
            let mut listing = files.clone();
            listing.sort();
            s.push(json!({"source": src_name, "options": on, "font_bytes": plain.as_ref().map(|b| b.len()).unwrap_or(0),
                "persisted_ids": id_count, "ir_files": files.len(), "persisted_events": events.len(),
                "some_ids": ids.keys().take(6).collect::<Vec<_>>(), "some_files": listing.iter().take(8).collect::<Vec<_>>()}));
        }
    }
    drop(ir);
    // (a) product binary
    if product {
        let dir = vcore::Scratch::new("c14-bin");
        let run = |emit: bool| -> (vcore::ProcOutcome, Option<Vec<u8>>) {
            let tag = if emit { "ir" } else { "plain" };
            let out = dir.join(&format!("{tag}.ttf"));
            let mut cmd = vcore::fontc_cmd(&vcore::fontc_bin(), None);
            // two pool threads: the parallel code path, without 16 checks x 16 threads on a shared machine
            cmd.env("RAYON_NUM_THREADS", "2");
            cmd.arg(path).arg("-o").arg(&out).arg("-b").arg(dir.join(&format!("build-{tag}")));
            if emit {
                cmd.arg("--emit-ir");
            }
            cmd.args(cli_args(opts));
            let o = vcore::run_proc(&mut cmd, 120_000, Some(8 << 30));
            let bytes = std::fs::read(&out).ok();
            (o, bytes)
        };
        let t0 = std::time::Instant::now();
        let (pa, fa) = run(false);
        let (pb, fb) = run(true);
        cnt.product_ms += t0.elapsed().as_millis() as u64;
        if pa.code == Some(2) && pa.stderr.contains("Usage:") {
            vcore::machinery_error(&format!("the product binary rejects the arguments {:?}: {}", cli_args(opts), pa.stderr));
        }
        // (a') history: the build directory was used before, by a bigger source; the font is taken from the default
        // output location inside the build directory (the file the persistence layer writes)
        if let (Some(0), Some(plain_font)) = (pa.code, fa.as_ref()) {
            let reuse = dir.join("build-reuse");
            let big = std::path::Path::new(vcore::REPO).join("resources/testdata/glyphs3/Oswald-AE-comb.glyphs");
            let mut first = vcore::fontc_cmd(&vcore::fontc_bin(), None);
            first.env("RAYON_NUM_THREADS", "2").arg(&big).arg("--emit-ir").arg("-b").arg(&reuse);
            let p1 = vcore::run_proc(&mut first, 120_000, Some(8 << 30));
            let big_len = std::fs::metadata(reuse.join("font.ttf")).map(|m| m.len()).unwrap_or(0);
            if p1.code == Some(0) && big_len > plain_font.len() as u64 {
                let mut second = vcore::fontc_cmd(&vcore::fontc_bin(), None);
                second.env("RAYON_NUM_THREADS", "2").arg(path).arg("--emit-ir").arg("-b").arg(&reuse).args(cli_args(opts));
                let p2 = vcore::run_proc(&mut second, 120_000, Some(8 << 30));
                match (p2.code, std::fs::read(reuse.join("font.ttf"))) {
                    (Some(0), Ok(b)) if b == *plain_font => cnt.product_reused_dir_equal += 1,
                    (Some(0), Ok(b)) => bad.push((
                        "font-differs-with-ir:reused-build-directory".into(),
                        format!("fontc --emit-ir into a build directory last used by a bigger source gives {} bytes, a build without IR {} bytes ({})", b.len(), plain_font.len(),
                            if b.len() > plain_font.len() && b[..plain_font.len()] == plain_font[..] { "the new font followed by stale bytes of the old one" } else { "different content" }),
                    )),
                    (c, _) => bad.push((
                        "outcome-differs-with-ir:reused-build-directory".into(),
                        format!("builds without IR, but with --emit-ir into a used build directory: {c:?}; stderr: {}", p2.stderr.lines().last().unwrap_or("")),
                    )),
                }
            }
        }
        match (pa.code, pb.code, fa, fb) {
            (Some(0), Some(0), Some(a), Some(b)) => {
                if a == b {
                    cnt.product_pairs_equal += 1;
                } else {
                    bad.push(("font-differs-with-ir:product-binary".into(), format!("fontc and fontc --emit-ir give {} and {} bytes that differ", a.len(), b.len())));
                }
                if let Ok(inproc) = &plain {
                    if *inproc != a {
                        // not part of the property; recorded because it would make (a) vacuous
                        bad.push(("in-process-differs-from-product-binary".into(), format!("in-process font {} bytes, product binary {} bytes", inproc.len(), a.len())));
                    }
                }
            }
            (ca, cb, fa, fb) => {
                let same = ca == cb && fa.is_some() == fb.is_some() && ca != Some(0);
                if same && plain.is_err() {
                    cnt.product_not_buildable += 1;
                } else {
                    bad.push((
                        "outcome-differs-with-ir:product-binary".into(),
                        format!("without --emit-ir: {} (font {}); with: {} (font {}); in process: {}; stderr: {}", pa.summary(), fa.is_some(), pb.summary(), fb.is_some(),
                            if plain.is_ok() { "builds" } else { "fails" }, pb.stderr.lines().last().unwrap_or("")),
                    ));
                }
            }
        }
    }
    bad.sort();
    bad.dedup_by(|a, b| a.0 == b.0);
    bad
}

fn part_font(rep: &mut Reporter, tier: Tier) -> Stats {
    // sources: generated designs (written once) and repo fixtures (read in place)
    let gen_dir = vcore::Scratch::new("c14-src");
    let mut sources: Vec<Source> = vec![];
    for g in GENERATED {
        let d = generated(g).unwrap();
        let dir = gen_dir.join(g);
        let path = d.write_source(&dir).unwrap_or_else(|e| vcore::machinery_error(&format!("cannot write {g}: {e}")));
        sources.push(Source { name: g.to_string(), kind: SrcKind::Generated(g), path });
    }
    let fixtures: Vec<String> = match tier {
        Tier::Quick => FIXTURES_QUICK.iter().map(|s| s.to_string()).collect(),
        Tier::Thorough => all_fixtures(),
    };
    for f in &fixtures {
        let path = fixture_root().join(f);
        if !path.exists() {
            vcore::machinery_error(&format!("fixture {path:?} is missing"));
        }
        sources.push(Source { name: f.clone(), kind: SrcKind::Fixture(f.clone()), path });
    }
    let product = vcore::fontc_bin().exists();
    if !product {
        rep.assume("the product binary is not built: the --emit-ir comparison was NOT run (run through ./check)");
    }
    let opts = option_sets();
    let cases: Vec<(usize, usize)> = (0..sources.len()).flat_map(|s| (0..opts.len()).map(move |o| (s, o))).collect();
    let results = vcore::par_for(cases.len(), vcore::ncores(), |ci| {
        let (si, oi) = cases[ci];
        let src = &sources[si];
        let mut cnt = BCounts::default();
        let mut samples = vec![];
        let want = oi == 0 && (si < 5 || si % 17 == 0);
        let found = check_build(&src.name, &src.path, &opts[oi], product, &mut cnt, if want { Some(&mut samples) } else { None });
        (cnt, found, samples)
    });
    let mut total = BCounts::default();
    let mut cls = Classes::default();
    let mut samples = vec![];
    let mut not_buildable = vec![];
    for (ci, (c, found, s)) in results.into_iter().enumerate() {
        let (si, oi) = cases[ci];
        let src = &sources[si];
        if c.not_buildable > 0 && oi == 0 {
            not_buildable.push(src.name.clone());
        }
        total.add(&c);
        if samples.len() < 8 {
            samples.extend(s);
        }
        for (key, msg) in found {
            let kind = match &src.kind {
                SrcKind::Generated(g) => json!({"generated": g}),
                SrcKind::Fixture(f) => json!({"fixture": f}),
            };
            cls.add(
                &key,
                format!("{} [{}]: {msg}", src.name, opts[oi].name()),
                json!({"kind": "build", "source": kind, "opts": serde_json::to_value(&opts[oi]).unwrap_or(Value::Null)}),
                (si * 10 + oi, String::new()),
            );
        }
    }
    cls.report(rep);
    rep.set("build_sources", sources.iter().map(|s| s.name.clone()).collect::<Vec<_>>());
    rep.set("build_option_sets", opts.iter().map(|o| o.name()).collect::<Vec<_>>());
    rep.set("build_cases", total.cases);
    rep.set("build_cases_built", total.built);
    rep.set("build_sources_not_buildable", json!(not_buildable));
    rep.set("inprocess_pairs_identical", total.inproc_pairs_equal);
    rep.set("product_binary_pairs_identical", total.product_pairs_equal);
    rep.set("product_binary_builds_into_a_used_build_directory_identical", total.product_reused_dir_equal);
    rep.set("product_binary_cases_not_buildable", total.product_not_buildable);
    rep.set("persisted_events", total.persisted_events);
    rep.set("persisted_events_compared_by_eq", total.persisted_eq);
    rep.set("persisted_events_compared_by_bytes", total.persisted_bytes);
    rep.set("persisted_events_exempt_not_equal", total.exempt_events);
    rep.set("ids_whose_reserialised_bytes_differ_in_map_order_only", total.order_only_byte_differences);
    rep.set("table_ids_unequal_in_memory_but_file_identical_to_font_table", total.eq_false_but_file_is_the_font_table);
    rep.set("build_ms_in_process_total", total.inproc_ms);
    rep.set("build_ms_product_binary_total", total.product_ms);
    rep.set("persisted_distinct_ids", total.distinct_ids);
    rep.set("ir_files", total.files);
    rep.set("ir_marker_files", total.marker_files);
    rep.set("persisted_named_ids", total.named_ids);
    rep.set("persisted_kern_instance_ids", total.kern_instance_ids);
    rep.set("build_samples", samples);
    rep.assume("parts (a), (b), (d): generated designs J0, J1, J2 (checks::sources), 'names' (glyphs a, A, con, CON, nul, a.b, a_b, A_ with anchors and kerning) and 'closekern' (kerning masters at normalized 0.501 and 0.504), plus repo fixtures (quick: six named ones; thorough: every .designspace/.glyphs/.glyphspackage/.ufo of resources/testdata and its glyphs2, glyphs3, dspace_rules, designspace_from_glyphs folders), each under six option sets");
    rep.assume("(b) uses the cfg(fontc_verif) read-back events of ContextItem/ContextMap::set; the id ExtraFeaTables is exempt because its os2_builder field is documented as session-only; (d) counts files: features.marker is the one documented file written without a context item and is set aside; equality of the two counts is what is asserted, a collision and a stray file in the same build would cancel out (part (c) covers the naming function itself)");
    rep.assume("the product binary is run with RAYON_NUM_THREADS=2 (both runs of a pair alike)");
    rep.assume("a source that does not build must fail the same way with and without IR; such cases are counted, not judged further");
    drop(gen_dir);
    Stats {
        evaluations: total.cases * 2 + total.persisted_events,
        nontrivial: total.cases_with_data_ids,
    }
}

fn replay_build(r: &Value) -> ! {
    let bad = |m: &str| -> ! { vcore::machinery_error(&format!("replay: {m}")) };
    let opts: fcx::Opts = serde_json::from_value(r.get("opts").cloned().unwrap_or(Value::Null)).unwrap_or_else(|e| bad(&format!("opts: {e}")));
    let src = r.get("source").unwrap_or_else(|| bad("source"));
    let gen_dir = vcore::Scratch::new("c14-src");
    let (name, path) = if let Some(g) = src.get("generated").and_then(|x| x.as_str()) {
        let d = generated(g).unwrap_or_else(|| bad("unknown generated source"));
        (g.to_string(), d.write_source(&gen_dir.join(g)).unwrap_or_else(|e| bad(&e.to_string())))
    } else if let Some(f) = src.get("fixture").and_then(|x| x.as_str()) {
        (f.to_string(), fixture_root().join(f))
    } else {
        bad("source must be generated or fixture")
    };
    let mut cnt = BCounts::default();
    let mut sample = vec![];
    let found = check_build(&name, &path, &opts, vcore::fontc_bin().exists(), &mut cnt, Some(&mut sample));
    println!("{name} [{}]", opts.name());
    if let Some(s) = sample.first() {
        println!("{s}");
    }
    for (k, m) in &found {
        println!("{k}: {m}");
    }
    drop(gen_dir);
    let fails = !found.is_empty();
    println!("replay: the case {}", if fails { "still fails" } else { "no longer fails" });
    vcore::cleanup_scratch();
    std::process::exit(fails as i32)
}

fn fold(s: &str, how: &str) -> String {
    match how {
        "ascii" => s.to_ascii_lowercase(),
        "unicode" => s.to_lowercase(),
        _ => s.to_string(),
    }
}

/// Re-run one recorded case: exit 1 if it still fails, 0 if not, 2 if the file is unusable.
fn replay(path: &Path) -> ! {
    let bad = |m: &str| -> ! { vcore::machinery_error(&format!("replay {path:?}: {m}")) };
    let text = std::fs::read_to_string(path).unwrap_or_else(|e| bad(&e.to_string()));
    let v: Value = serde_json::from_str(&text).unwrap_or_else(|e| bad(&e.to_string()));
    let r = v.get("replay").unwrap_or(&v);
    let kind = r.get("kind").and_then(|k| k.as_str()).unwrap_or_else(|| bad("no kind"));
    let how = r.get("fold").and_then(|k| k.as_str()).unwrap_or("exact");
    std::panic::set_hook(Box::new(|_| {}));
    if kind == "build" {
        replay_build(r);
    }
    let fails = match kind {
        "names" => {
            let a = r.get("a").and_then(|x| x.as_str()).unwrap_or_else(|| bad("a"));
            let b = r.get("b").and_then(|x| x.as_str()).unwrap_or_else(|| bad("b"));
            match (safe_s2f(a, ".yml"), safe_s2f(b, ".yml")) {
                (Ok(fa), Ok(fb)) => {
                    println!("{a:?} -> {fa:?}; {b:?} -> {fb:?}");
                    a != b && fold(&fa, how) == fold(&fb, how)
                }
                _ => true,
            }
        }
        "name-panic" => {
            let a = r.get("name").and_then(|x| x.as_str()).unwrap_or_else(|| bad("name"));
            safe_s2f(a, ".yml").is_err()
        }
        "ids" => {
            let a = r.get("a").and_then(Id::from_json).unwrap_or_else(|| bad("a"));
            let b = r.get("b").and_then(Id::from_json).unwrap_or_else(|| bad("b"));
            let pa = catch_unwind(AssertUnwindSafe(|| a.path()));
            let pb = catch_unwind(AssertUnwindSafe(|| b.path()));
            match (pa, pb) {
                (Ok(Some(pa)), Ok(Some(pb))) => {
                    println!("{a:?} -> {pa:?}; {b:?} -> {pb:?}");
                    a != b && fold(&pa.to_string_lossy(), how) == fold(&pb.to_string_lossy(), how)
                }
                (Ok(None), _) | (_, Ok(None)) => bad("unknown id"),
                _ => true,
            }
        }
        "id-panic" => {
            let a = r.get("id").and_then(Id::from_json).unwrap_or_else(|| bad("id"));
            catch_unwind(AssertUnwindSafe(|| a.path())).is_err()
        }
        "id-shape" => {
            let a = r.get("id").and_then(Id::from_json).unwrap_or_else(|| bad("id"));
            match catch_unwind(AssertUnwindSafe(|| a.path())) {
                Ok(Some(p)) => {
                    println!("{a:?} -> {p:?}");
                    let p = p.to_string_lossy().into_owned();
                    let rel = p.strip_prefix(DIR).unwrap_or(&p).trim_start_matches('/').to_string();
                    let want = matches!(a, Id::FeNamed(..) | Id::BeNamed(..)) as usize;
                    rel.matches('/').count() != want
                        || rel.split('/').any(|c| c == ".." || c == "." || c.is_empty())
                }
                _ => true,
            }
        }
        other => bad(&format!("unknown kind {other}")),
    };
    println!("replay: the case {}", if fails { "still fails" } else { "no longer fails" });
    std::process::exit(if fails { 1 } else { 0 })
}

fn main() {
    // one build epoch for every in-process compile
    unsafe { std::env::set_var("SOURCE_DATE_EPOCH", "1700000000") };
    let args = vcore::parse_args();
    if args.rest.first().map(|s| s.as_str()) == Some("probe-glyf") {
        // read one persisted BE glyph file back with the real reader
        use fontir::orchestration::Persistable;
        let bytes = std::fs::read(&args.rest[1]).unwrap();
        println!("{} bytes: {:?}", bytes.len(), &bytes[..bytes.len().min(64)]);
        let r = catch_unwind(AssertUnwindSafe(|| {
            let g = <fontbe::orchestration::Glyph as Persistable>::read(&mut bytes.as_slice());
            let mut again = vec![];
            g.write(&mut again);
            (format!("{g:?}"), again == bytes)
        }));
        println!("{:?}", r.map_err(panic_msg));
        std::process::exit(0);
    }
    if let Some(p) = &args.replay {
        replay(p);
    }
    let mut rep = Reporter::new("C14", "exploration", &args);
    let hook = std::panic::take_hook();
    std::panic::set_hook(Box::new(|_| {}));
    let pure = part_pure(&mut rep, args.tier);
    let font = part_font(&mut rep, args.tier);
    std::panic::set_hook(hook);
    rep.set("evaluations", pure.evaluations + font.evaluations);
    rep.set("distinct_nontrivial", pure.nontrivial + font.nontrivial);
    rep.set("rule", "evaluations = names given to string_to_filename + work ids given to the two target_file functions (all pairs are judged, by grouping on the produced path). distinct_nontrivial = distinct names whose file name is not simply name+suffix (escaping, case code or reserved-name protection exercised) + pairs of distinct kern-instance locations closer than 0.01 on every axis (the pairs a rounded location in a file name can confuse); parts (a),(b),(d) add two builds per (source, option set) plus every read-back event, and the (source, option set) pairs whose IR directory received at least one glyph-, anchor- or kerning-instance-named file");
    rep.set("exhaustive", true);
    rep.set("parts_implemented", json!(["a: same font with and without IR", "b: IR reads back equal", "c: pure injectivity", "d: one file per persisted id"]));
    rep.finish()
}
