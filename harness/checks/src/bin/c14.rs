//! C14 — emitting IR is transparent and faithful.
//!
//! This file currently implements part (c) of the design, the *pure* injectivity sweep of the
//! file naming (no build is run):
//!   * `fontdrasil::paths::string_to_filename` over every string of <= 4 (thorough <= 5) symbols
//!     of the C14(c) alphabet: exact and ASCII-case-folded injectivity;
//!   * `fontir::paths::Paths::target_file` / `fontbe::paths::Paths::target_file` over every id
//!     that carries data (glyph / anchor / glyf fragment / gvar fragment names, kern fragment
//!     numbers, kern instance locations) plus every fixed id, all in ONE directory namespace
//!     (fontc hands the same `ir_dir` to the front end and the back end).
//!
//! `part_font` (equality of fonts with/without IR, read-back, dynamic id->path log) is added later.
use fontbe::orchestration::WorkId as BeId;
use fontdrasil::{
    coords::{NormalizedCoord, NormalizedLocation},
    paths::string_to_filename,
    types::GlyphName,
};
use fontir::orchestration::WorkId as FeId;
use serde_json::{Value, json};
use std::{
    collections::BTreeMap,
    panic::{AssertUnwindSafe, catch_unwind},
    path::{Path, PathBuf},
    str::FromStr,
};
use vcore::{Reporter, Tier};
use write_fonts::types::Tag;

/// The C14(c) alphabet; "con", "CON", "nul" are single symbols.
const ATOMS: [&str; 20] = [
    "a", "A", "b", "B", "_", ".", "/", ":", "*", "^", "%", "2", "E", "~", "é", "É", "ß", "con",
    "CON", "nul",
];

const DIR: &str = "/ir";

#[derive(Default)]
struct Stats {
    evaluations: u64,
    nontrivial: u64,
}

/// One violation class: how many cases, and the smallest case seen.
#[derive(Default)]
struct Classes(BTreeMap<String, (u64, String, Value, (usize, String))>);

impl Classes {
    /// `size` orders candidates for "minimal example".
    fn add(&mut self, key: &str, what: String, replay: Value, size: (usize, String)) {
        match self.0.get_mut(key) {
            Some(e) => {
                e.0 += 1;
                if size < e.3 {
                    e.1 = what;
                    e.2 = replay;
                    e.3 = size;
                }
            }
            None => {
                self.0.insert(key.to_string(), (1, what, replay, size));
            }
        }
    }
    fn report(self, rep: &mut Reporter) {
        for (key, (n, what, replay, _)) in self.0 {
            rep.violation(&key, &format!("{what} [{n} case(s) in this class]"), replay);
        }
    }
}

/// The i-th name of exactly `len` symbols (base-20 digits, most significant first).
fn name_of(len: usize, mut i: usize) -> String {
    let mut parts = vec![""; len];
    for k in (0..len).rev() {
        parts[k] = ATOMS[i % ATOMS.len()];
        i /= ATOMS.len();
    }
    parts.concat()
}

fn all_names(max_len: usize) -> Vec<String> {
    let mut v = vec![];
    for len in 0..=max_len {
        for i in 0..ATOMS.len().pow(len as u32) {
            v.push(name_of(len, i));
        }
    }
    // atoms of several letters never recombine into another atom sequence over this alphabet,
    // but do not rely on it
    v.sort();
    v.dedup();
    v
}

/// Lower-case only the non-ASCII letters: names equal under this map differ only in the case
/// of a non-ASCII letter.
fn fold_non_ascii(s: &str) -> String {
    s.chars()
        .flat_map(|c| {
            if c.is_ascii() {
                vec![c]
            } else {
                c.to_lowercase().collect::<Vec<_>>()
            }
        })
        .collect()
}

fn safe_s2f(name: &str, suffix: &str) -> Result<String, String> {
    catch_unwind(AssertUnwindSafe(|| string_to_filename(name, suffix))).map_err(panic_msg)
}

fn panic_msg(p: Box<dyn std::any::Any + Send>) -> String {
    p.downcast_ref::<String>()
        .cloned()
        .or(p.downcast_ref::<&str>().map(|s| s.to_string()))
        .unwrap_or_else(|| "panic".into())
}

/// Groups of equal keys in a vector sorted by key: calls `f` with each group of size > 1.
fn groups<'a>(sorted: &'a [(String, u32)], mut f: impl FnMut(&'a [(String, u32)])) {
    let mut i = 0;
    while i < sorted.len() {
        let mut j = i + 1;
        while j < sorted.len() && sorted[j].0 == sorted[i].0 {
            j += 1;
        }
        if j - i > 1 {
            f(&sorted[i..j]);
        }
        i = j;
    }
}

// ------------------------------------------------------------------ (c1) string_to_filename

fn sweep_names(max_len: usize, cls: &mut Classes, ev: &mut BTreeMap<String, Value>) -> Stats {
    let names = all_names(max_len);
    let threads = vcore::ncores();
    let chunk = 20_000;
    let n_chunks = names.len().div_ceil(chunk);
    let parts = vcore::par_for(n_chunks, threads, |c| {
        let lo = c * chunk;
        let hi = (lo + chunk).min(names.len());
        let mut out = Vec::with_capacity(hi - lo);
        let mut panics = vec![];
        for i in lo..hi {
            match safe_s2f(&names[i], ".yml") {
                Ok(f) => out.push((f, i as u32)),
                Err(m) => panics.push((i, m)),
            }
        }
        (out, panics)
    });
    let mut files: Vec<(String, u32)> = Vec::with_capacity(names.len());
    for (out, panics) in parts {
        files.extend(out);
        for (i, m) in panics {
            cls.add(
                "string-to-filename-panic",
                format!("string_to_filename({:?}) panics: {m}", names[i]),
                json!({"kind": "name-panic", "name": names[i]}),
                (names[i].len(), names[i].clone()),
            );
        }
    }
    let mut st = Stats {
        evaluations: files.len() as u64,
        ..Default::default()
    };
    let mut transformed = 0u64;
    let mut escaped = 0u64;
    let mut case_coded = 0u64;
    let mut reserved = 0u64;
    for (f, i) in &files {
        let n = &names[*i as usize];
        if *f != format!("{n}.yml") {
            transformed += 1;
        }
        if f.contains('%') {
            escaped += 1;
        }
        if f.contains('^') {
            case_coded += 1;
        }
        if matches!(n.to_ascii_lowercase().as_str(), "con" | "nul") {
            reserved += 1;
        }
    }
    st.nontrivial = transformed;

    // exact
    files.sort();
    let mut exact_pairs = 0u64;
    groups(&files, |g| {
        for w in g.windows(2) {
            exact_pairs += 1;
            let (a, b) = (&names[w[0].1 as usize], &names[w[1].1 as usize]);
            cls.add(
                "filename-collision-exact",
                format!("names {a:?} and {b:?} both map to file {:?}", w[0].0),
                json!({"kind": "names", "fold": "exact", "a": a, "b": b}),
                (a.len() + b.len(), format!("{a}\u{0}{b}")),
            );
        }
    });

    // ASCII case folding of the file name (case-insensitive, ASCII-only-folding file systems)
    let mut folded: Vec<(String, u32)> = files
        .iter()
        .map(|(f, i)| (f.to_ascii_lowercase(), *i))
        .collect();
    folded.sort();
    let mut ascii_pairs = 0u64;
    groups(&folded, |g| {
        for w in g.windows(2) {
            let (a, b) = (&names[w[0].1 as usize], &names[w[1].1 as usize]);
            ascii_pairs += 1;
            cls.add(
                "filename-collision-ascii-casefold",
                format!(
                    "names {a:?} and {b:?} map to files that differ only in ASCII case: {:?}",
                    w[0].0
                ),
                json!({"kind": "names", "fold": "ascii", "a": a, "b": b}),
                (a.len() + b.len(), format!("{a}\u{0}{b}")),
            );
        }
    });

    // Unicode lower-casing of the file name: recorded, asserted only when the two names differ
    // in more than the case of non-ASCII letters.
    let mut ufolded: Vec<(String, u32)> = files.iter().map(|(f, i)| (f.to_lowercase(), *i)).collect();
    drop(folded);
    ufolded.sort();
    let mut non_ascii_pairs = 0u64;
    let mut non_ascii_samples = vec![];
    groups(&ufolded, |g| {
        for w in g.windows(2) {
            let (a, b) = (&names[w[0].1 as usize], &names[w[1].1 as usize]);
            if fold_non_ascii(a) == fold_non_ascii(b) {
                non_ascii_pairs += 1;
                if non_ascii_samples.len() < 4 || (non_ascii_samples.len() < 6 && a.len() > 6) {
                    non_ascii_samples.push(json!({"a": a, "b": b,
                        "file_a": string_to_filename(a, ".yml"), "file_b": string_to_filename(b, ".yml")}));
                }
            } else {
                // an ASCII-fold collision was already reported above; anything else here is new
                let fa = string_to_filename(a, ".yml");
                let fb = string_to_filename(b, ".yml");
                if fa.to_ascii_lowercase() != fb.to_ascii_lowercase() {
                    cls.add(
                        "filename-collision-unicode-casefold",
                        format!("names {a:?} and {b:?} (not a pure non-ASCII case difference) map to {fa:?} / {fb:?}, equal after Unicode lower-casing"),
                        json!({"kind": "names", "fold": "unicode", "a": a, "b": b}),
                        (a.len() + b.len(), format!("{a}\u{0}{b}")),
                    );
                }
            }
        }
    });

    let mid = &names[names.len() / 2];
    let last = names.iter().max_by_key(|n| n.len()).unwrap();
    ev.insert(
        "string_to_filename".into(),
        json!({
            "alphabet": ATOMS, "max_symbols": max_len, "names": names.len(),
            "file_name_not_name_plus_suffix": transformed,
            "with_percent_escape": escaped, "with_case_code": case_coded, "reserved_device_names": reserved,
            "exact_collision_pairs": exact_pairs,
            "ascii_casefold_collision_pairs": ascii_pairs,
            "non_ascii_case_only_pairs_not_asserted": non_ascii_pairs,
            "non_ascii_case_only_samples": non_ascii_samples,
            "samples": [
                {"name": "A", "file": string_to_filename("A", ".yml")},
                {"name": "con", "file": string_to_filename("con", ".yml")},
                {"name": mid, "file": string_to_filename(mid, ".yml")},
                {"name": last, "file": string_to_filename(last, ".yml")},
            ],
        }),
    );
    st
}

// ------------------------------------------------------------------ (c2) target_file over ids

/// A serialisable description of one work id, FE or BE.
#[derive(Clone, Debug, PartialEq)]
enum Id {
    FeNamed(&'static str, String),
    BeNamed(&'static str, String),
    KernFragment(usize),
    KernInstance(Vec<(String, f64)>),
    FeFixed(String),
    BeFixed(String),
}

fn fe_fixed() -> Vec<FeId> {
    vec![
        FeId::StaticMetadata,
        FeId::GlobalMetrics,
        FeId::PreliminaryGlyphOrder,
        FeId::GlyphOrder,
        FeId::PreliminaryGdefCategories,
        FeId::GdefCategories,
        FeId::Features,
        FeId::KerningLocations,
        FeId::ColorPalettes,
        FeId::PaintGraph,
    ]
}

fn be_fixed() -> Vec<BeId> {
    use BeId::*;
    vec![
        Features, FeaturesAst, Avar, Cmap, Colr, Cpal, Font, Fvar, Gasp, Glyf, Gpos, Gsub, Gdef,
        Gvar, Head, Hhea, Hmtx, Hvar, Meta, Vhea, Vmtx, Vvar, GatherIrKerning, GatherBeKerning,
        Loca, LocaFormat, Marks, Maxp, Mvar, Name, Os2, Post, Stat, ExtraFeaTables,
    ]
}

fn location(loc: &[(String, f64)]) -> NormalizedLocation {
    loc.iter()
        .map(|(t, v)| (Tag::from_str(t).unwrap(), NormalizedCoord::new(*v)))
        .collect::<Vec<_>>()
        .into()
}

impl Id {
    fn kind(&self) -> String {
        match self {
            Id::FeNamed(k, _) | Id::BeNamed(k, _) => k.to_string(),
            Id::KernFragment(_) => "KernFragment".into(),
            Id::KernInstance(_) => "KernInstance".into(),
            Id::FeFixed(n) => format!("fe:{n}"),
            Id::BeFixed(n) => format!("be:{n}"),
        }
    }
    fn size(&self) -> usize {
        match self {
            Id::FeNamed(_, n) | Id::BeNamed(_, n) => n.len(),
            Id::KernFragment(n) => *n,
            Id::KernInstance(l) => {
                l.len() * 1_000_000 + l.iter().map(|(_, v)| (v.abs() * 1000.0).round() as usize).sum::<usize>()
            }
            _ => 0,
        }
    }
    fn to_json(&self) -> Value {
        match self {
            Id::FeNamed(k, n) => json!({"space": "fe", "variant": k, "name": n}),
            Id::BeNamed(k, n) => json!({"space": "be", "variant": k, "name": n}),
            Id::KernFragment(n) => json!({"space": "be", "variant": "KernFragment", "n": n}),
            Id::KernInstance(l) => json!({"space": "fe", "variant": "KernInstance", "location": l}),
            Id::FeFixed(n) => json!({"space": "fe", "variant": n}),
            Id::BeFixed(n) => json!({"space": "be", "variant": n}),
        }
    }
    fn from_json(v: &Value) -> Option<Id> {
        let space = v.get("space")?.as_str()?;
        let variant = v.get("variant")?.as_str()?;
        if let Some(n) = v.get("name").and_then(|n| n.as_str()) {
            let k: &'static str = ["Glyph", "Anchor", "GlyfFragment", "GvarFragment"]
                .into_iter()
                .find(|k| *k == variant)?;
            return Some(if space == "fe" {
                Id::FeNamed(k, n.to_string())
            } else {
                Id::BeNamed(k, n.to_string())
            });
        }
        if variant == "KernFragment" {
            return Some(Id::KernFragment(v.get("n")?.as_u64()? as usize));
        }
        if variant == "KernInstance" {
            let l = v
                .get("location")?
                .as_array()?
                .iter()
                .filter_map(|e| Some((e.get(0)?.as_str()?.to_string(), e.get(1)?.as_f64()?)))
                .collect();
            return Some(Id::KernInstance(l));
        }
        Some(if space == "fe" {
            Id::FeFixed(variant.to_string())
        } else {
            Id::BeFixed(variant.to_string())
        })
    }
    /// The path the real code assigns (None: the id cannot be rebuilt, e.g. unknown fixed name).
    fn path(&self) -> Option<PathBuf> {
        let dir = Path::new(DIR);
        Some(match self {
            Id::FeNamed("Glyph", n) => {
                fontir::paths::Paths::target_file(dir, &FeId::Glyph(GlyphName::new(n)))
            }
            Id::FeNamed("Anchor", n) => {
                fontir::paths::Paths::target_file(dir, &FeId::Anchor(GlyphName::new(n)))
            }
            Id::BeNamed("GlyfFragment", n) => {
                fontbe::paths::Paths::target_file(dir, &BeId::GlyfFragment(GlyphName::new(n)))
            }
            Id::BeNamed("GvarFragment", n) => {
                fontbe::paths::Paths::target_file(dir, &BeId::GvarFragment(GlyphName::new(n)))
            }
            Id::KernFragment(n) => fontbe::paths::Paths::target_file(dir, &BeId::KernFragment(*n)),
            Id::KernInstance(l) => {
                fontir::paths::Paths::target_file(dir, &FeId::KernInstance(location(l)))
            }
            Id::FeFixed(n) => {
                let id = fe_fixed().into_iter().find(|i| format!("{i:?}") == *n)?;
                fontir::paths::Paths::target_file(dir, &id)
            }
            Id::BeFixed(n) => {
                let id = be_fixed().into_iter().find(|i| format!("{i:?}") == *n)?;
                fontbe::paths::Paths::target_file(dir, &id)
            }
            _ => return None,
        })
    }
}

fn collision_key(a: &Id, b: &Id, folded: bool) -> String {
    if matches!((a, b), (Id::KernInstance(_), Id::KernInstance(_))) && !folded {
        return "kern-instance-filename-collision".into();
    }
    let (mut ka, mut kb) = (a.kind(), b.kind());
    if kb < ka {
        std::mem::swap(&mut ka, &mut kb);
    }
    format!(
        "ir-path-collision{}:{ka}/{kb}",
        if folded { "-ascii-casefold" } else { "" }
    )
}

fn sweep_ids(tier: Tier, cls: &mut Classes, ev: &mut BTreeMap<String, Value>) -> Stats {
    let name_len = tier.pick(3, 4);
    let names = all_names(name_len);
    let mut ids: Vec<Id> = vec![];
    for n in names.iter().filter(|n| !n.is_empty()) {
        ids.push(Id::FeNamed("Glyph", n.clone()));
        ids.push(Id::FeNamed("Anchor", n.clone()));
        ids.push(Id::BeNamed("GlyfFragment", n.clone()));
        ids.push(Id::BeNamed("GvarFragment", n.clone()));
    }
    let named = ids.len();
    let n_frag = tier.pick(20_000, 1_000_000);
    ids.extend((0..n_frag).map(Id::KernFragment));
    ids.extend(fe_fixed().iter().map(|i| Id::FeFixed(format!("{i:?}"))));
    ids.extend(be_fixed().iter().map(|i| Id::BeFixed(format!("{i:?}"))));
    // kern instances: 1 axis on the 0.001 grid (two different tags), 2 axes on a coarser grid
    let before_kern = ids.len();
    for tag in ["wght", "wdth"] {
        for i in -1000..=1000 {
            ids.push(Id::KernInstance(vec![(tag.to_string(), i as f64 / 1000.0)]));
        }
    }
    let one_axis = ids.len() - before_kern;
    let step2 = tier.pick(20, 4); // in 1/1000
    let mut i = -1000;
    while i <= 1000 {
        let mut j = -1000;
        while j <= 1000 {
            ids.push(Id::KernInstance(vec![
                ("wdth".to_string(), i as f64 / 1000.0),
                ("wght".to_string(), j as f64 / 1000.0),
            ]));
            j += step2;
        }
        i += step2;
    }
    let two_axis = ids.len() - before_kern - one_axis;

    let threads = vcore::ncores();
    let chunk = 10_000;
    let parts = vcore::par_for(ids.len().div_ceil(chunk), threads, |c| {
        let lo = c * chunk;
        let hi = (lo + chunk).min(ids.len());
        (lo..hi)
            .map(|i| {
                catch_unwind(AssertUnwindSafe(|| ids[i].path()))
                    .map_err(panic_msg)
                    .map(|p| p.map(|p| p.to_string_lossy().into_owned()))
            })
            .collect::<Vec<_>>()
    });
    let mut paths: Vec<(String, u32)> = Vec::with_capacity(ids.len());
    for (i, r) in parts.into_iter().flatten().enumerate() {
        match r {
            Ok(Some(p)) => paths.push((p, i as u32)),
            Ok(None) => vcore::machinery_error(&format!("cannot build id {:?}", ids[i])),
            Err(m) => cls.add(
                &format!("target-file-panic:{}", ids[i].kind()),
                format!("target_file({:?}) panics: {m}", ids[i]),
                json!({"kind": "id-panic", "id": ids[i].to_json()}),
                (ids[i].size(), String::new()),
            ),
        }
    }
    let evaluations = paths.len() as u64;

    // data-carrying ids must stay inside the build directory they are given
    let mut escapes = 0u64;
    for (p, i) in &paths {
        let rel = p.strip_prefix(DIR).unwrap_or(p).trim_start_matches('/');
        let depth = rel.matches('/').count();
        let expected_depth = match &ids[*i as usize] {
            Id::FeNamed(..) | Id::BeNamed(..) => 1,
            _ => 0,
        };
        if depth != expected_depth || rel.split('/').any(|c| c == ".." || c == "." || c.is_empty()) {
            escapes += 1;
            cls.add(
                &format!("ir-path-shape:{}", ids[*i as usize].kind()),
                format!("id {:?} is written to {p:?}: not a plain file name in its directory", ids[*i as usize]),
                json!({"kind": "id-shape", "id": ids[*i as usize].to_json()}),
                (ids[*i as usize].size(), String::new()),
            );
        }
    }

    let mut pair_counts: BTreeMap<String, u64> = BTreeMap::new();
    let mut judge = |sorted: &[(String, u32)], folded: bool, cls: &mut Classes| {
        groups(sorted, |g| {
            // every pair in the group collides; count them all, describe adjacent ones
            let m = g.len() as u64;
            let (a0, b0) = (&ids[g[0].1 as usize], &ids[g[1].1 as usize]);
            *pair_counts.entry(collision_key(a0, b0, folded)).or_default() += m * (m - 1) / 2;
            for w in g.windows(2) {
                let (a, b) = (&ids[w[0].1 as usize], &ids[w[1].1 as usize]);
                let (a, b) = if b.size() < a.size() { (b, a) } else { (a, b) };
                cls.add(
                    &collision_key(a, b, folded),
                    format!(
                        "distinct work ids {a:?} and {b:?} are both persisted to {:?}{}",
                        w[0].0,
                        if folded { " (after ASCII case folding)" } else { "" }
                    ),
                    json!({"kind": "ids", "fold": if folded { "ascii" } else { "exact" },
                        "a": a.to_json(), "b": b.to_json()}),
                    // ties: prefer the conventional tag in the written-out example
                    (a.size() + b.size(), format!("{:?}{:?}", a, b).replace("wght", "!wght")),
                );
            }
        });
    };
    paths.sort();
    judge(&paths, false, cls);
    // case-insensitive file systems; exact collisions are excluded by construction of the key
    let mut folded: Vec<(String, u32)> = Vec::with_capacity(paths.len());
    {
        // keep one representative per exact path so that an exact collision is not reported twice
        let mut last: Option<&str> = None;
        for (p, i) in &paths {
            if last != Some(p.as_str()) {
                folded.push((p.to_ascii_lowercase(), *i));
            }
            last = Some(p.as_str());
        }
    }
    folded.sort();
    judge(&folded, true, cls);

    let n1 = 2001u64;
    let per_axis2 = (2000 / step2 + 1) as u64;
    let n2 = per_axis2 * per_axis2;
    // pairs of locations closer than 0.01 on every axis: the ones a 2-decimal name can confuse
    let close_1 = |n: u64| -> u64 { (1..10).map(|d| n - d).sum() };
    let close_pairs_1axis = 2 * close_1(n1);
    let span = (9 / step2 as u64) as i64; // max index distance with |delta| < 0.01
    let mut close_pairs_2axis = 0u64;
    for dx in -span..=span {
        for dy in -span..=span {
            if (dx, dy) > (0, 0) {
                close_pairs_2axis +=
                    (per_axis2 - dx.unsigned_abs()) * (per_axis2 - dy.unsigned_abs());
            }
        }
    }
    ev.insert(
        "target_file".into(),
        json!({
            "one_namespace": "fontc passes the same ir_dir to the FE and BE persistent storage",
            "ids": ids.len(), "named_ids": named, "name_max_symbols": name_len,
            "kern_fragment_numbers": n_frag,
            "fixed_ids": fe_fixed().len() + be_fixed().len(),
            "kern_instance_locations_1_axis": one_axis,
            "kern_instance_location_pairs_1_axis": 2 * (n1 * (n1 - 1) / 2),
            "kern_instance_grid_2_axes": format!("{}/1000", step2),
            "kern_instance_locations_2_axes": two_axis,
            "kern_instance_location_pairs_2_axes": n2 * (n2 - 1) / 2,
            "kern_location_pairs_closer_than_0.01": close_pairs_1axis + close_pairs_2axis,
            "colliding_pairs_by_class": pair_counts,
            "paths_not_plain_files": escapes,
            "samples": [
                {"id": ids[0].to_json(), "path": ids[0].path()},
                {"id": ids[named - 1].to_json(), "path": ids[named - 1].path()},
                {"id": ids[before_kern + 1501].to_json(), "path": ids[before_kern + 1501].path()},
                {"id": ids[ids.len() - 1].to_json(), "path": ids[ids.len() - 1].path()},
            ],
        }),
    );
    Stats {
        evaluations,
        nontrivial: close_pairs_1axis + close_pairs_2axis,
    }
}

// ------------------------------------------------------------------ driver

fn part_pure(rep: &mut Reporter, tier: Tier) -> Stats {
    let mut cls = Classes::default();
    let mut ev = BTreeMap::new();
    let a = sweep_names(tier.pick(4, 5), &mut cls, &mut ev);
    let b = sweep_ids(tier, &mut cls, &mut ev);
    cls.report(rep);
    let mut samples = vec![];
    for v in ev.values() {
        if let Some(a) = v.get("samples").and_then(|s| s.as_array()) {
            samples.extend(a.iter().cloned());
        }
    }
    rep.set("samples", samples);
    for (k, v) in ev {
        rep.set(&k, v);
    }
    rep.set("names_with_transformed_file_name", a.nontrivial);
    rep.set("kern_location_pairs_within_two_decimals", b.nontrivial);
    rep.assume("part (c) only: names are strings over the 20-symbol alphabet of DESIGN C14(c) up to the stated length; other characters (e.g. other reserved punctuation, control characters) are not enumerated");
    rep.assume("case-insensitive file systems are modelled by ASCII case folding of the produced path; Unicode-aware folding (É/é, and full folding such as ß/ss) is recorded in evidence, not asserted");
    rep.assume("kern instance locations: 1 axis on the 0.001 grid (tags wght, wdth), 2 axes on the stated coarser grid; axis tags made of characters that are themselves unsafe in file names are not enumerated");
    Stats {
        evaluations: a.evaluations + b.evaluations,
        nontrivial: a.nontrivial + b.nontrivial,
    }
}

// fn part_font(rep: &mut Reporter, tier: Tier) -> Stats { ... }   // (a), (b), (d): added later

fn fold(s: &str, how: &str) -> String {
    match how {
        "ascii" => s.to_ascii_lowercase(),
        "unicode" => s.to_lowercase(),
        _ => s.to_string(),
    }
}

/// Re-run one recorded case: exit 1 if it still fails, 0 if not, 2 if the file is unusable.
fn replay(path: &Path) -> ! {
    let bad = |m: &str| -> ! { vcore::machinery_error(&format!("replay {path:?}: {m}")) };
    let text = std::fs::read_to_string(path).unwrap_or_else(|e| bad(&e.to_string()));
    let v: Value = serde_json::from_str(&text).unwrap_or_else(|e| bad(&e.to_string()));
    let r = v.get("replay").unwrap_or(&v);
    let kind = r.get("kind").and_then(|k| k.as_str()).unwrap_or_else(|| bad("no kind"));
    let how = r.get("fold").and_then(|k| k.as_str()).unwrap_or("exact");
    std::panic::set_hook(Box::new(|_| {}));
    let fails = match kind {
        "names" => {
            let a = r.get("a").and_then(|x| x.as_str()).unwrap_or_else(|| bad("a"));
            let b = r.get("b").and_then(|x| x.as_str()).unwrap_or_else(|| bad("b"));
            match (safe_s2f(a, ".yml"), safe_s2f(b, ".yml")) {
                (Ok(fa), Ok(fb)) => {
                    println!("{a:?} -> {fa:?}; {b:?} -> {fb:?}");
                    a != b && fold(&fa, how) == fold(&fb, how)
                }
                _ => true,
            }
        }
        "name-panic" => {
            let a = r.get("name").and_then(|x| x.as_str()).unwrap_or_else(|| bad("name"));
            safe_s2f(a, ".yml").is_err()
        }
        "ids" => {
            let a = r.get("a").and_then(Id::from_json).unwrap_or_else(|| bad("a"));
            let b = r.get("b").and_then(Id::from_json).unwrap_or_else(|| bad("b"));
            let pa = catch_unwind(AssertUnwindSafe(|| a.path()));
            let pb = catch_unwind(AssertUnwindSafe(|| b.path()));
            match (pa, pb) {
                (Ok(Some(pa)), Ok(Some(pb))) => {
                    println!("{a:?} -> {pa:?}; {b:?} -> {pb:?}");
                    a != b && fold(&pa.to_string_lossy(), how) == fold(&pb.to_string_lossy(), how)
                }
                (Ok(None), _) | (_, Ok(None)) => bad("unknown id"),
                _ => true,
            }
        }
        "id-panic" => {
            let a = r.get("id").and_then(Id::from_json).unwrap_or_else(|| bad("id"));
            catch_unwind(AssertUnwindSafe(|| a.path())).is_err()
        }
        "id-shape" => {
            let a = r.get("id").and_then(Id::from_json).unwrap_or_else(|| bad("id"));
            match catch_unwind(AssertUnwindSafe(|| a.path())) {
                Ok(Some(p)) => {
                    println!("{a:?} -> {p:?}");
                    let p = p.to_string_lossy().into_owned();
                    let rel = p.strip_prefix(DIR).unwrap_or(&p).trim_start_matches('/').to_string();
                    let want = matches!(a, Id::FeNamed(..) | Id::BeNamed(..)) as usize;
                    rel.matches('/').count() != want
                        || rel.split('/').any(|c| c == ".." || c == "." || c.is_empty())
                }
                _ => true,
            }
        }
        other => bad(&format!("unknown kind {other}")),
    };
    println!("replay: the case {}", if fails { "still fails" } else { "no longer fails" });
    std::process::exit(if fails { 1 } else { 0 })
}

fn main() {
    let args = vcore::parse_args();
    if let Some(p) = &args.replay {
        replay(p);
    }
    let mut rep = Reporter::new("C14", "exploration", &args);
    let hook = std::panic::take_hook();
    std::panic::set_hook(Box::new(|_| {}));
    let pure = part_pure(&mut rep, args.tier);
    std::panic::set_hook(hook);
    // let font = part_font(&mut rep, args.tier);
    rep.set("evaluations", pure.evaluations);
    rep.set("distinct_nontrivial", pure.nontrivial);
    rep.set("rule", "evaluations = names given to string_to_filename + work ids given to the two target_file functions (all pairs are judged, by grouping on the produced path). distinct_nontrivial = distinct names whose file name is not simply name+suffix (escaping, case code or reserved-name protection exercised) + pairs of distinct kern-instance locations closer than 0.01 on every axis (the pairs a rounded location in a file name can confuse)");
    rep.set("exhaustive", true);
    rep.set("parts_implemented", json!(["c: pure injectivity"]));
    rep.finish()
}
