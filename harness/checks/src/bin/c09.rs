//! C09 — kerning in the font equals the source kerning at every master.
//!
//! For every generated designspace (glyphs A B C D, Latin codepoints, no marks, no feature file)
//! the real compiler is run in process and, for every master that defines kerning and every ordered
//! pair of the four glyphs, the horizontal adjustment the font's `kern` feature applies at that
//! master's own normalized location (independent GPOS engine `otlayout`, GDEF variation store
//! included) is compared with the UFO *kerning value lookup* on that master's OWN kerning.plist /
//! groups.plist: glyph+glyph, else glyph+group2, else group1+glyph, else group1+group2, else 0; rounded
//! with floor(x+0.5).
//!
//! The enumeration is a union of complete sub-spaces (see `spaces`); each sub-space is the full
//! product  master set x per-master group patterns x sets of <= k kerning keys x per-key value options,
//! filtered only by well-formedness (combinations in which a key would name a group that its master does
//! not define are left out: no dangling group references).
//!
//! Most sub-spaces hand the compiler a designspace + UFOs (groups per master); some hand it a Glyphs 3
//! file (groups global), and the sub-spaces marked `twin` hand it BOTH forms of every case (all their
//! group configurations being uniform); all judged by the same reference.
//!
//! Group NAMES are part of the alphabet in the `+named-group` sub-spaces (an extra group whose name is
//! another group's name plus a suffix, next to groups the masters disagree about), and the
//! `all-zero-*-master` sub-spaces hold every small kerning configuration in which one master of three
//! defines kerning but only zeros.
//!
//! Environment knobs (debugging only): C09_COUNT=1 prints the sub-space sizes and exits;
//! C09_ONLY=<sub-space name> runs a single sub-space; C09_CAP_S=<seconds> changes the time cap;
//! C09_BENCH=1 prints the CPU cost of the stages; C09_PROFILE=1 prints per-case stage timings.

use dgen::*;
use otlayout::{FeatureSel, LFont, ShapeRequest, Table};
use otvar::VFont;
use serde::{Deserialize, Serialize};
use serde_json::{Value, json};
use std::collections::{BTreeMap, BTreeSet};
use vcore::{Reporter, Tier};
use write_fonts::read::{
    FontRef, TableProvider,
    tables::gpos::{PairPos, PositionSubtables},
};

const GLYPHS: [&str; 4] = ["A", "B", "C", "D"];
const K1: &str = "public.kern1.";
const K2: &str = "public.kern2.";

// ------------------------------------------------------------------------------------ the alphabet

/// Which masters the designspace has. Master 0 is always the default master.
#[derive(Clone, Copy, Debug, PartialEq, Eq, PartialOrd, Ord, Serialize, Deserialize)]
enum MasterSet {
    /// wght 400(default)..700: masters at 400, 700
    Ends,
    /// wght 400(default)..700: masters at 400, 550 (normalized 0.5), 700
    EndsMid,
    /// wght 100..400(default)..700: masters at 400, 100, 700
    MinDefMax,
    /// wght 400..700 x wdth 100..200, masters (400,100) default, (700,100), (400,200), (550,150):
    /// the last one sits where two other regions have scalar 0.5 (the only set with fractional scalars)
    TwoAxis,
}

impl MasterSet {
    fn n(self) -> usize {
        match self {
            MasterSet::Ends => 2,
            MasterSet::EndsMid | MasterSet::MinDefMax => 3,
            MasterSet::TwoAxis => 4,
        }
    }
    fn name(self) -> &'static str {
        match self {
            MasterSet::Ends => "ends",
            MasterSet::EndsMid => "ends+mid",
            MasterSet::MinDefMax => "min-default-max",
            MasterSet::TwoAxis => "two-axes+inner",
        }
    }
    fn axes(self) -> Vec<Axis> {
        match self {
            MasterSet::Ends | MasterSet::EndsMid => vec![Axis::new("wght", "Weight", 400.0, 400.0, 700.0)],
            MasterSet::MinDefMax => vec![Axis::new("wght", "Weight", 100.0, 400.0, 700.0)],
            MasterSet::TwoAxis => vec![
                Axis::new("wght", "Weight", 400.0, 400.0, 700.0),
                Axis::new("wdth", "Width", 100.0, 100.0, 200.0),
            ],
        }
    }
    fn locs(self) -> Vec<Vec<f64>> {
        match self {
            MasterSet::Ends => vec![vec![400.0], vec![700.0]],
            MasterSet::EndsMid => vec![vec![400.0], vec![550.0], vec![700.0]],
            MasterSet::MinDefMax => vec![vec![400.0], vec![100.0], vec![700.0]],
            MasterSet::TwoAxis => vec![
                vec![400.0, 100.0],
                vec![700.0, 100.0],
                vec![400.0, 200.0],
                vec![550.0, 150.0],
            ],
        }
    }
}

/// The group patterns of one side (the same list is used for side 1 = `public.kern1.*` and side 2 =
/// `public.kern2.*`). No pattern puts a glyph into two groups of one side (invalid in UFO 3).
fn pattern_groups(p: u8) -> &'static [(&'static str, &'static [&'static str])] {
    match p {
        0 => &[],
        1 => &[("G1", &["A", "B"])],
        2 => &[("G1", &["A", "B"]), ("G2", &["C"])],
        3 => &[("G1", &["A", "B", "C"])],
        4 => &[("G1", &["A"]), ("G2", &["B", "C"])],
        5 => &[("G1", &["A"])],
        _ => panic!("unknown group pattern {p}"),
    }
}

/// A further group, the same in every master (members: glyph D, which no pattern touches), on one side.
/// Its NAME is part of the alphabet: unrelated to the pattern groups' names, or a pattern group's name
/// with a suffix (the shape of name a compiler that splits a group whose membership differs between
/// masters is likely to make up for the parts).
#[derive(Clone, Debug, PartialEq, Eq, PartialOrd, Ord, Serialize, Deserialize)]
struct Extra {
    /// 1 = `public.kern1.<name>`, 2 = `public.kern2.<name>`
    side: u8,
    name: String,
}

const EXTRA_MEMBER: &str = "D";
/// the names of the extra group, relative to the pattern group G1
const EXTRA_NAMES: [&str; 5] = ["H", "G1_1", "G1_2", "G1_0", "G11"];

/// every (side, name) of the extra group
fn extras_all() -> Vec<Option<Extra>> {
    let mut v = vec![];
    for side in [1u8, 2] {
        for n in EXTRA_NAMES {
            v.push(Some(Extra { side, name: n.to_string() }));
        }
    }
    v
}

/// The names a kerning key may carry on one side: glyph A, glyph C, group G1, group G2 and (index 4, only
/// in the sub-spaces that have one, only on its side) the extra group.
fn side_name(side: u8, idx: u8, extra: Option<&Extra>) -> String {
    let pre = if side == 1 { K1 } else { K2 };
    match idx {
        0 => "A".into(),
        1 => "C".into(),
        2 => format!("{pre}G1"),
        3 => format!("{pre}G2"),
        4 => format!("{pre}{}", extra.expect("generator bug: key names an extra group the case does not have").name),
        _ => panic!("unknown side name {idx}"),
    }
}

fn name_valid(idx: u8, pattern: u8, side: u8, extra: Option<&Extra>) -> bool {
    match idx {
        0 | 1 => true,
        2 => pattern_groups(pattern).iter().any(|(n, _)| *n == "G1"),
        3 => pattern_groups(pattern).iter().any(|(n, _)| *n == "G2"),
        4 => extra.is_some_and(|e| e.side == side),
        _ => false,
    }
}

/// One kerning key with its value in each master (None = the master's kerning.plist does not have it).
#[derive(Clone, Debug, PartialEq, Serialize, Deserialize)]
struct Entry {
    first: u8,
    second: u8,
    values: Vec<Option<f64>>,
}

/// The source format the design is handed to the compiler in.
#[derive(Clone, Copy, Debug, Default, PartialEq, Eq, Serialize, Deserialize)]
enum Src {
    /// a designspace with one UFO per master (groups are per master)
    #[default]
    Ufo,
    /// one Glyphs 3 file (groups are a property of the glyph, hence the same in every master: only
    /// uniform group configurations are representable; `public.kernN.X` is written as `@MMK_L_X`/`@MMK_R_X`)
    Glyphs3,
}

#[derive(Clone, Debug, PartialEq, Serialize, Deserialize)]
struct Case {
    #[serde(default)]
    src: Src,
    ms: MasterSet,
    /// per master: (side-1 pattern, side-2 pattern)
    groups: Vec<(u8, u8)>,
    entries: Vec<Entry>,
    /// a further group {D}, identical in every master
    #[serde(default)]
    extra: Option<Extra>,
}

impl Case {
    fn label(&self) -> String {
        let g: Vec<String> = self.groups.iter().map(|(a, b)| format!("{a}/{b}")).collect();
        let e: Vec<String> = self
            .entries
            .iter()
            .map(|e| {
                let v: Vec<String> = e.values.iter().map(|v| v.map(num).unwrap_or("-".into())).collect();
                format!(
                    "({},{})=[{}]",
                    short(&side_name(1, e.first, self.extra.as_ref())),
                    short(&side_name(2, e.second, self.extra.as_ref())),
                    v.join(",")
                )
            })
            .collect();
        let src = if self.src == Src::Glyphs3 { "glyphs3 " } else { "" };
        let x = match &self.extra {
            Some(x) => format!(" extra[@{}{}={{{EXTRA_MEMBER}}}]", x.side, x.name),
            None => String::new(),
        };
        format!("{src}{} groups[{}]{x} {}", self.ms.name(), g.join(" "), e.join(" "))
    }
}

fn short(n: &str) -> String {
    n.strip_prefix(K1).map(|s| format!("@1{s}")).or(n.strip_prefix(K2).map(|s| format!("@2{s}"))).unwrap_or(n.to_string())
}

fn build_design(c: &Case) -> Design {
    let mut d = Design::skeleton("C09", c.ms.axes(), c.ms.locs());
    let nm = c.ms.n();
    for (gi, name) in GLYPHS.iter().enumerate() {
        let mut g = Glyph::new(name, &[0x41 + gi as u32]);
        for m in 0..nm {
            let w = 100.0 + 20.0 * m as f64;
            g.layers.insert(
                m,
                Layer { advance: 600.0, contours: vec![shapes::rect(50.0, 0.0, 50.0 + w, 700.0)], ..Default::default() },
            );
        }
        d.glyphs.push(g);
    }
    for m in 0..nm {
        let (p1, p2) = c.groups[m];
        for (pre, p) in [(K1, p1), (K2, p2)] {
            for (gname, members) in pattern_groups(p) {
                d.masters[m].groups.insert(format!("{pre}{gname}"), members.iter().map(|s| s.to_string()).collect());
            }
        }
        if let Some(x) = &c.extra {
            let pre = if x.side == 1 { K1 } else { K2 };
            d.masters[m].groups.insert(format!("{pre}{}", x.name), vec![EXTRA_MEMBER.to_string()]);
        }
        for e in &c.entries {
            if let Some(v) = e.values[m] {
                d.masters[m]
                    .kerning
                    .insert((side_name(1, e.first, c.extra.as_ref()), side_name(2, e.second, c.extra.as_ref())), v);
            }
        }
    }
    d
}

// ------------------------------------------------------------------------------------ sub-spaces

#[derive(Clone, Copy, Debug, PartialEq)]
enum GroupMode {
    /// all masters carry the same (side-1, side-2) patterns
    Uniform,
    /// every master picks its patterns independently; configurations where all masters agree are left
    /// to the `Uniform` sub-spaces
    Independent,
    /// exactly one side differs between masters (the other side is the same everywhere)
    OneSide,
    /// all masters agree except one (any) master
    OneMaster,
}

struct Sub {
    name: &'static str,
    ms: MasterSet,
    patterns: &'static [u8],
    mode: GroupMode,
    max_keys: usize,
    opts: Vec<Vec<Option<f64>>>,
    src: Src,
    /// smallest key-set size enumerated here (smaller sets are covered by another sub-space)
    min_keys: usize,
    /// keep only group configurations in which some master uses this pattern on some side
    must_use: Option<u8>,
    /// the alternatives for the extra group (`[None]` = the sub-space has none); every group
    /// configuration is combined with every alternative
    extras: Vec<Option<Extra>>,
    /// keep only key sets in which some key names the extra group (the others are the cases of the
    /// sub-space without an extra group, up to an unreferenced group)
    need_extra_key: bool,
    /// also hand the compiler the Glyphs 3 twin of every case whose groups are the same in every master
    /// (groups are global in Glyphs, so only those are representable), judged by the same reference
    twin: bool,
}

fn uniform_cfg(cfg: &[(u8, u8)]) -> bool {
    cfg.iter().all(|c| *c == cfg[0])
}

/// value x presence options: every value on every non-empty subset of masters
fn opts_product(n: usize, values: &[f64]) -> Vec<Vec<Option<f64>>> {
    let mut out = vec![];
    for mask in 1u32..(1 << n) {
        for v in values {
            out.push((0..n).map(|m| (mask >> m & 1 == 1).then_some(*v)).collect());
        }
    }
    out
}

/// Per-key options of the all-zero-master sub-spaces (three masters): master `z` holds 0 for the key or
/// does not have it, the first other master -50 or nothing, the second other master 30 or nothing; every
/// combination except "no master has the key". Whatever keys are drawn, every pair master `z` defines
/// is 0. `full` = all 7; otherwise the two options in which only one master (not `z`) has the key are left
/// out (5 options).
fn opts_zero_master(z: usize, full: bool) -> Vec<Vec<Option<f64>>> {
    let others: Vec<usize> = (0..3).filter(|m| *m != z).collect();
    let mut out = vec![];
    for zv in [Some(0.0), None] {
        for a in [Some(-50.0), None] {
            for b in [Some(30.0), None] {
                let present = zv.is_some() as u8 + a.is_some() as u8 + b.is_some() as u8;
                if present == 0 || (!full && zv.is_none() && present == 1) {
                    continue;
                }
                let mut v = vec![None; 3];
                v[z] = zv;
                v[others[0]] = a;
                v[others[1]] = b;
                out.push(v);
            }
        }
    }
    out
}

fn o(v: &[Option<f64>]) -> Vec<Option<f64>> {
    v.to_vec()
}

fn group_configs(sub: &Sub) -> Vec<Vec<(u8, u8)>> {
    let mut v = group_configs_all(sub);
    if let Some(p) = sub.must_use {
        v.retain(|cfg| cfg.iter().any(|(a, b)| *a == p || *b == p));
    }
    v
}

fn group_configs_all(sub: &Sub) -> Vec<Vec<(u8, u8)>> {
    let n = sub.ms.n();
    let pp: Vec<(u8, u8)> = sub.patterns.iter().flat_map(|a| sub.patterns.iter().map(|b| (*a, *b))).collect();
    let mut out: Vec<Vec<(u8, u8)>> = vec![];
    match sub.mode {
        GroupMode::Uniform => {
            for p in &pp {
                out.push(vec![*p; n]);
            }
        }
        GroupMode::Independent | GroupMode::OneSide => {
            let mut idx = vec![0usize; n];
            loop {
                let cfg: Vec<(u8, u8)> = idx.iter().map(|i| pp[*i]).collect();
                let uniform = cfg.iter().all(|c| *c == cfg[0]);
                let s1 = cfg.iter().any(|c| c.0 != cfg[0].0);
                let s2 = cfg.iter().any(|c| c.1 != cfg[0].1);
                let keep = !uniform && (sub.mode == GroupMode::Independent || !(s1 && s2));
                if keep {
                    out.push(cfg);
                }
                let mut k = n;
                loop {
                    if k == 0 {
                        return out;
                    }
                    k -= 1;
                    idx[k] += 1;
                    if idx[k] < pp.len() {
                        break;
                    }
                    idx[k] = 0;
                }
            }
        }
        GroupMode::OneMaster => {
            for base in &pp {
                for m in 0..n {
                    for other in &pp {
                        if other != base {
                            let mut cfg = vec![*base; n];
                            cfg[m] = *other;
                            out.push(cfg);
                        }
                    }
                }
            }
            out.sort();
            out.dedup();
        }
    }
    out
}

/// All cases of one (sub-space, group configuration) block, smallest key sets first.
fn block_cases(sub: &Sub, cfg: &[(u8, u8)], extra: Option<&Extra>, count_only: bool) -> (Vec<Case>, u64) {
    // (key, option) combinations that are well formed under this configuration
    let mut per_key: Vec<((u8, u8), Vec<usize>)> = vec![];
    for a in 0..5u8 {
        for b in 0..5u8 {
            let ok: Vec<usize> = (0..sub.opts.len())
                .filter(|oi| {
                    sub.opts[*oi]
                        .iter()
                        .enumerate()
                        .all(|(m, v)| v.is_none() || (name_valid(a, cfg[m].0, 1, extra) && name_valid(b, cfg[m].1, 2, extra)))
                })
                .collect();
            if !ok.is_empty() {
                per_key.push(((a, b), ok));
            }
        }
    }
    let mut out = vec![];
    let mut count = 0u64;
    // sets of k keys, keys in increasing order
    fn rec(
        sub: &Sub,
        cfg: &[(u8, u8)],
        per_key: &[((u8, u8), Vec<usize>)],
        start: usize,
        left: usize,
        cur: &mut Vec<Entry>,
        out: &mut Vec<Case>,
        count: &mut u64,
        count_only: bool,
        extra: Option<&Extra>,
    ) {
        if left == 0 {
            if sub.need_extra_key && !cur.iter().any(|e| e.first == 4 || e.second == 4) {
                return;
            }
            *count += 1;
            if !count_only {
                out.push(Case { src: sub.src, ms: sub.ms, groups: cfg.to_vec(), entries: cur.clone(), extra: extra.cloned() });
            }
            return;
        }
        for ki in start..per_key.len() {
            let ((a, b), ok) = &per_key[ki];
            for oi in ok {
                cur.push(Entry { first: *a, second: *b, values: sub.opts[*oi].clone() });
                rec(sub, cfg, per_key, ki + 1, left - 1, cur, out, count, count_only, extra);
                cur.pop();
            }
        }
    }
    for k in sub.min_keys..=sub.max_keys {
        rec(sub, cfg, &per_key, 0, k, &mut vec![], &mut out, &mut count, count_only, extra);
    }
    if sub.twin && sub.src == Src::Ufo && uniform_cfg(cfg) {
        // the Glyphs 3 twins, after the UFO cases
        let twins: Vec<Case> = out.iter().map(|c| Case { src: Src::Glyphs3, ..c.clone() }).collect();
        out.extend(twins);
        count *= 2;
    }
    (out, count)
}

fn spaces(tier: Tier) -> Vec<Sub> {
    const V4: [f64; 4] = [-50.0, 0.0, 30.0, 12.5];
    let s = Some;
    let mut v = vec![];
    match tier {
        Tier::Quick => {
            // the cascade under identical groups, two masters
            v.push(Sub {
                src: Src::Ufo,
                extras: vec![None],
                need_extra_key: false,
                twin: true,
                min_keys: 1,
                must_use: None,
                name: "ends/uniform/2keys",
                ms: MasterSet::Ends,
                patterns: &[0, 1, 2, 3],
                mode: GroupMode::Uniform,
                max_keys: 2,
                opts: vec![
                    o(&[s(-50.0), s(-50.0)]),
                    o(&[s(30.0), None]),
                    o(&[None, s(12.5)]),
                    o(&[s(0.0), s(0.0)]),
                    o(&[s(-50.0), s(30.0)]),
                ],
            });
            // one key, every value and presence, masters grouping glyphs independently
            let mut one = opts_product(2, &V4);
            one.push(o(&[s(-50.0), s(30.0)]));
            v.push(Sub {
                src: Src::Ufo,
                extras: vec![None],
                need_extra_key: false,
                twin: false,
                min_keys: 1,
                must_use: None,
                name: "ends/independent/1key",
                ms: MasterSet::Ends,
                patterns: &[0, 2, 3],
                mode: GroupMode::Independent,
                max_keys: 1,
                opts: one,
            });
            // two keys while one side's groups differ between the masters
            v.push(Sub {
                src: Src::Ufo,
                extras: vec![None],
                need_extra_key: false,
                twin: false,
                min_keys: 2,
                must_use: None,
                name: "ends/one-side-divergent/2keys",
                ms: MasterSet::Ends,
                patterns: &[0, 2, 3],
                mode: GroupMode::OneSide,
                max_keys: 2,
                opts: vec![o(&[s(-50.0), s(-50.0)]), o(&[s(30.0), None]), o(&[None, s(12.5)])],
            });
            // an intermediate master: every presence subset
            let mut mid = opts_product(3, &[-50.0, 12.5]);
            mid.push(o(&[s(-50.0), s(-10.0), s(30.0)]));
            v.push(Sub {
                src: Src::Ufo,
                extras: vec![None],
                need_extra_key: false,
                twin: true,
                min_keys: 1,
                must_use: None,
                name: "ends+mid/uniform/1key",
                ms: MasterSet::EndsMid,
                patterns: &[0, 1, 2, 3],
                mode: GroupMode::Uniform,
                max_keys: 1,
                opts: mid,
            });
            v.push(Sub {
                src: Src::Ufo,
                extras: vec![None],
                need_extra_key: false,
                twin: true,
                min_keys: 1,
                must_use: None,
                name: "ends+mid/uniform/2keys",
                ms: MasterSet::EndsMid,
                patterns: &[0, 2, 3],
                mode: GroupMode::Uniform,
                max_keys: 2,
                opts: vec![
                    o(&[s(-50.0), s(-50.0), s(-50.0)]),
                    o(&[s(30.0), None, s(30.0)]),
                    o(&[None, s(12.5), None]),
                ],
            });
            v.push(Sub {
                src: Src::Ufo,
                extras: vec![None],
                need_extra_key: false,
                twin: false,
                min_keys: 1,
                must_use: None,
                name: "ends+mid/one-master-deviates/1key",
                ms: MasterSet::EndsMid,
                patterns: &[0, 2, 3],
                mode: GroupMode::OneMaster,
                max_keys: 1,
                opts: vec![
                    o(&[s(-50.0), s(-50.0), s(-50.0)]),
                    o(&[s(30.0), None, s(30.0)]),
                    o(&[None, s(12.5), None]),
                    o(&[s(-50.0), s(-10.0), None]),
                ],
            });
            // group NAMES: a further group {D}, the same in both masters, whose name is unrelated to / derived
            // from the name of a group the masters disagree about, on either side; some key names it
            v.push(Sub {
                src: Src::Ufo,
                extras: extras_all(),
                need_extra_key: true,
                twin: false,
                min_keys: 1,
                must_use: None,
                name: "ends/one-side-divergent+named-group/2keys",
                ms: MasterSet::Ends,
                patterns: &[1, 3],
                mode: GroupMode::OneSide,
                max_keys: 2,
                opts: vec![o(&[s(-50.0), s(-50.0)]), o(&[s(30.0), None]), o(&[None, s(12.5)])],
            });
            // a master all of whose pairs are 0 (it defines kerning: its zeros are asserted) between / beside
            // masters that kern the same or other pairs: the non-default master in the middle, and the
            // default master in the middle with an end master all-zero (the other end: thorough tier)
            for (name, ms, z) in [
                ("ends+mid/uniform/all-zero-middle-master/2keys", MasterSet::EndsMid, 1usize),
                ("min-def-max/uniform/all-zero-min-master/2keys", MasterSet::MinDefMax, 1),
            ] {
                v.push(Sub {
                    src: Src::Ufo,
                    extras: vec![None],
                    need_extra_key: false,
                    twin: true,
                    min_keys: 1,
                    must_use: None,
                    name,
                    ms,
                    patterns: &[0, 2],
                    mode: GroupMode::Uniform,
                    max_keys: 2,
                    opts: opts_zero_master(z, false),
                });
            }
            // through the Glyphs reader (groups are global there): besides the twins of the uniform sub-spaces
            // above, value options those do not have
            v.push(Sub {
                src: Src::Glyphs3,
                extras: vec![None],
                need_extra_key: false,
                twin: false,
                min_keys: 1,
                must_use: None,
                name: "glyphs3/ends+mid/uniform/1key",
                ms: MasterSet::EndsMid,
                patterns: &[0, 2, 3],
                mode: GroupMode::Uniform,
                max_keys: 1,
                opts: vec![
                    o(&[s(-50.0), s(-50.0), s(-50.0)]),
                    o(&[s(30.0), None, s(30.0)]),
                    o(&[None, s(12.5), None]),
                    o(&[s(-50.0), s(-10.0), None]),
                    o(&[None, None, s(0.0)]),
                ],
            });
        }
        Tier::Thorough => {
            let mut full2 = opts_product(2, &V4);
            full2.push(o(&[s(-50.0), s(30.0)]));
            v.push(Sub {
                src: Src::Ufo,
                extras: vec![None],
                need_extra_key: false,
                twin: false,
                min_keys: 1,
                must_use: None,
                name: "ends/uniform/2keys",
                ms: MasterSet::Ends,
                patterns: &[0, 1, 2, 3],
                mode: GroupMode::Uniform,
                max_keys: 2,
                opts: full2.clone(),
            });
            v.push(Sub {
                src: Src::Ufo,
                extras: vec![None],
                need_extra_key: false,
                twin: false,
                min_keys: 1,
                must_use: Some(4),
                name: "ends/uniform-with-pattern4/2keys",
                ms: MasterSet::Ends,
                patterns: &[0, 2, 4],
                mode: GroupMode::Uniform,
                max_keys: 2,
                opts: vec![
                    o(&[s(-50.0), s(-50.0)]),
                    o(&[s(30.0), None]),
                    o(&[None, s(12.5)]),
                    o(&[s(0.0), s(0.0)]),
                    o(&[s(-50.0), s(30.0)]),
                ],
            });
            v.push(Sub {
                src: Src::Ufo,
                extras: vec![None],
                need_extra_key: false,
                twin: false,
                min_keys: 3,
                must_use: None,
                name: "ends/uniform/3keys",
                ms: MasterSet::Ends,
                patterns: &[0, 1, 2, 3],
                mode: GroupMode::Uniform,
                max_keys: 3,
                opts: vec![o(&[s(-50.0), s(-50.0)]), o(&[s(30.0), None]), o(&[None, s(12.5)])],
            });
            v.push(Sub {
                src: Src::Ufo,
                extras: vec![None],
                need_extra_key: false,
                twin: false,
                min_keys: 1,
                must_use: None,
                name: "ends/independent/1key",
                ms: MasterSet::Ends,
                patterns: &[0, 1, 2, 3, 4],
                mode: GroupMode::Independent,
                max_keys: 1,
                opts: full2.clone(),
            });
            v.push(Sub {
                src: Src::Ufo,
                extras: vec![None],
                need_extra_key: false,
                twin: false,
                min_keys: 2,
                must_use: None,
                name: "ends/independent/2keys",
                ms: MasterSet::Ends,
                patterns: &[0, 1, 2, 3],
                mode: GroupMode::Independent,
                max_keys: 2,
                opts: vec![
                    o(&[s(-50.0), s(-50.0)]),
                    o(&[s(30.0), None]),
                    o(&[None, s(12.5)]),
                    o(&[s(0.0), s(0.0)]),
                ],
            });
            v.push(Sub {
                src: Src::Ufo,
                extras: vec![None],
                need_extra_key: false,
                twin: false,
                min_keys: 2,
                must_use: None,
                name: "ends/one-side-divergent/3keys",
                ms: MasterSet::Ends,
                patterns: &[0, 2, 3],
                mode: GroupMode::OneSide,
                max_keys: 3,
                opts: vec![o(&[s(-50.0), s(-50.0)]), o(&[None, s(30.0)])],
            });
            let mut mid = opts_product(3, &V4);
            mid.push(o(&[s(-50.0), s(-10.0), s(30.0)]));
            for ms in [MasterSet::EndsMid, MasterSet::MinDefMax] {
                v.push(Sub {
                src: Src::Ufo,
                extras: vec![None],
                need_extra_key: false,
                twin: false,
                min_keys: 1,
                must_use: None,
                    name: if ms == MasterSet::EndsMid { "ends+mid/uniform/1key" } else { "min-def-max/uniform/1key" },
                    ms,
                    patterns: &[0, 1, 2, 3, 4],
                    mode: GroupMode::Uniform,
                    max_keys: 1,
                    opts: mid.clone(),
                });
                v.push(Sub {
                src: Src::Ufo,
                extras: vec![None],
                need_extra_key: false,
                twin: false,
                min_keys: 2,
                must_use: None,
                    name: if ms == MasterSet::EndsMid { "ends+mid/uniform/2keys" } else { "min-def-max/uniform/2keys" },
                    ms,
                    patterns: &[0, 1, 2, 3],
                    mode: GroupMode::Uniform,
                    max_keys: 2,
                    opts: vec![
                        o(&[s(-50.0), s(-50.0), s(-50.0)]),
                        o(&[s(30.0), None, s(30.0)]),
                        o(&[None, s(12.5), None]),
                        o(&[s(0.0), s(0.0), None]),
                        o(&[None, None, s(30.0)]),
                        o(&[s(-50.0), s(-10.0), s(30.0)]),
                    ],
                });
                v.push(Sub {
                    src: Src::Ufo,
                extras: vec![None],
                need_extra_key: false,
                twin: false,
                    min_keys: if ms == MasterSet::EndsMid { 2 } else { 1 },
                    must_use: None,
                    name: if ms == MasterSet::EndsMid {
                        "ends+mid/one-master-deviates/2keys"
                    } else {
                        "min-def-max/one-master-deviates/2keys"
                    },
                    ms,
                    patterns: &[0, 2, 3],
                    mode: GroupMode::OneMaster,
                    max_keys: 2,
                    opts: vec![
                        o(&[s(-50.0), s(-50.0), s(-50.0)]),
                        o(&[s(30.0), None, s(30.0)]),
                        o(&[None, s(12.5), None]),
                    ],
                });
            }
            v.push(Sub {
                src: Src::Ufo,
                extras: vec![None],
                need_extra_key: false,
                twin: false,
                min_keys: 1,
                must_use: None,
                name: "ends+mid/independent/1key",
                ms: MasterSet::EndsMid,
                patterns: &[0, 2, 3],
                mode: GroupMode::Independent,
                max_keys: 1,
                opts: vec![
                    o(&[s(-50.0), s(-50.0), s(-50.0)]),
                    o(&[s(30.0), None, s(30.0)]),
                    o(&[None, s(12.5), None]),
                    o(&[s(-50.0), s(-10.0), None]),
                ],
            });
            v.push(Sub {
                src: Src::Glyphs3,
                extras: vec![None],
                need_extra_key: false,
                twin: false,
                min_keys: 1,
                must_use: None,
                name: "glyphs3/ends/uniform/2keys",
                ms: MasterSet::Ends,
                patterns: &[0, 1, 2, 3, 4],
                mode: GroupMode::Uniform,
                max_keys: 2,
                opts: vec![
                    o(&[s(-50.0), s(-50.0)]),
                    o(&[s(30.0), None]),
                    o(&[None, s(12.5)]),
                    o(&[s(0.0), s(0.0)]),
                    o(&[s(-50.0), s(30.0)]),
                ],
            });
            v.push(Sub {
                src: Src::Glyphs3,
                extras: vec![None],
                need_extra_key: false,
                twin: false,
                min_keys: 1,
                must_use: None,
                name: "glyphs3/ends+mid/uniform/2keys",
                ms: MasterSet::EndsMid,
                patterns: &[0, 2, 3],
                mode: GroupMode::Uniform,
                max_keys: 2,
                opts: vec![
                    o(&[s(-50.0), s(-50.0), s(-50.0)]),
                    o(&[s(30.0), None, s(30.0)]),
                    o(&[None, s(12.5), None]),
                    o(&[s(-50.0), s(-10.0), None]),
                    o(&[None, None, s(0.0)]),
                ],
            });
            v.push(Sub {
                src: Src::Ufo,
                extras: vec![None],
                need_extra_key: false,
                twin: false,
                min_keys: 1,
                must_use: None,
                name: "two-axes/uniform/2keys",
                ms: MasterSet::TwoAxis,
                patterns: &[0, 2, 3],
                mode: GroupMode::Uniform,
                max_keys: 2,
                opts: vec![
                    o(&[s(-50.0), s(-50.0), s(-50.0), s(-50.0)]),
                    o(&[s(30.0), s(5.0), s(12.5), s(-7.0)]),
                    o(&[s(-50.0), s(-35.0), None, s(12.5)]),
                    o(&[None, None, None, s(30.0)]),
                ],
            });
            // group NAMES (see the quick tier): every pair of different patterns on the divergent side
            v.push(Sub {
                src: Src::Ufo,
                extras: extras_all(),
                need_extra_key: true,
                twin: false,
                min_keys: 1,
                must_use: None,
                name: "ends/one-side-divergent+named-group/2keys",
                ms: MasterSet::Ends,
                patterns: &[0, 1, 2, 3],
                mode: GroupMode::OneSide,
                max_keys: 2,
                opts: vec![o(&[s(-50.0), s(-50.0)]), o(&[s(30.0), None]), o(&[None, s(12.5)])],
            });
            // three masters, G1 = {A} / {A,B} / {A,B,C} in any arrangement on one side (a group that falls
            // apart into up to three parts), the other side the same everywhere
            v.push(Sub {
                src: Src::Ufo,
                extras: extras_all(),
                need_extra_key: true,
                twin: false,
                min_keys: 1,
                must_use: None,
                name: "ends+mid/one-side-divergent+named-group/2keys",
                ms: MasterSet::EndsMid,
                patterns: &[5, 1, 3],
                mode: GroupMode::OneSide,
                max_keys: 2,
                opts: vec![o(&[s(-50.0), s(-50.0), s(-50.0)]), o(&[None, s(30.0), None])],
            });
            // a master all of whose pairs are 0, every position of it in both three-master layouts
            for (name, ms, z) in [
                ("ends+mid/uniform/all-zero-default-master/2keys", MasterSet::EndsMid, 0usize),
                ("ends+mid/uniform/all-zero-middle-master/2keys", MasterSet::EndsMid, 1),
                ("ends+mid/uniform/all-zero-max-master/2keys", MasterSet::EndsMid, 2),
                ("min-def-max/uniform/all-zero-default-master/2keys", MasterSet::MinDefMax, 0),
                ("min-def-max/uniform/all-zero-min-master/2keys", MasterSet::MinDefMax, 1),
                ("min-def-max/uniform/all-zero-max-master/2keys", MasterSet::MinDefMax, 2),
            ] {
                v.push(Sub {
                    src: Src::Ufo,
                    extras: vec![None],
                    need_extra_key: false,
                    twin: true,
                    min_keys: 1,
                    must_use: None,
                    name,
                    ms,
                    patterns: &[0, 2, 3],
                    mode: GroupMode::Uniform,
                    max_keys: 2,
                    opts: opts_zero_master(z, true),
                });
            }
        }
    }
    v
}

// ------------------------------------------------------------------------------------ the reference

/// The group of `side` ("public.kern1." / "public.kern2.") that contains `glyph` in this master.
fn group_of<'a>(m: &'a Master, prefix: &str, glyph: &str) -> Option<&'a String> {
    let mut found = None;
    for (name, members) in &m.groups {
        if name.starts_with(prefix) && members.iter().any(|g| g == glyph) {
            assert!(found.is_none(), "generator bug: {glyph} is in two {prefix} groups");
            found = Some(name);
        }
    }
    found
}

/// UFO 3 kerning value lookup on one master's own data. Returns (value, level that answered 0..=3 or 4
/// for the fallback, bitmask of the levels that have an entry).
fn ufo_lookup(m: &Master, g1: &str, g2: &str) -> (f64, u8, u8) {
    let gr1 = group_of(m, K1, g1);
    let gr2 = group_of(m, K2, g2);
    let get = |a: &str, b: &str| m.kerning.get(&(a.to_string(), b.to_string())).copied();
    let levels: [Option<f64>; 4] = [
        get(g1, g2),
        gr2.and_then(|b| get(g1, b)),
        gr1.and_then(|a| get(a, g2)),
        gr1.zip(gr2).and_then(|(a, b)| get(a, b)),
    ];
    let mask = levels.iter().enumerate().fold(0u8, |acc, (i, l)| if l.is_some() { acc | 1 << i } else { acc });
    for (i, l) in levels.iter().enumerate() {
        if let Some(v) = l {
            return (*v, i as u8, mask);
        }
    }
    (0.0, 4, mask)
}

// ------------------------------------------------------------------------------------ evaluation

#[derive(Default, Clone, Debug, Serialize)]
struct Stats {
    cases: u64,
    builds_failed: u64,
    fonts_without_gpos: u64,
    fonts_with_pairpos_format1: u64,
    fonts_with_pairpos_format2: u64,
    fonts_with_several_kern_lookups: u64,
    fonts_with_gdef_variation_store: u64,
    masters_asserted: u64,
    masters_not_asserted_no_kerning: u64,
    comparisons: u64,
    comparisons_nonzero_expected: u64,
    comparisons_answered_by_glyph_glyph: u64,
    comparisons_answered_by_glyph_group: u64,
    comparisons_answered_by_group_glyph: u64,
    comparisons_answered_by_group_group: u64,
    comparisons_where_a_higher_level_overrides_a_lower: u64,
    comparisons_with_fractional_region_scalars: u64,
    cases_with_exception_glyph_glyph_over_group_group: u64,
    cases_with_glyph_group_vs_group_glyph_conflict: u64,
    cases_with_divergent_groups_side1: u64,
    cases_with_divergent_groups_side2: u64,
    cases_with_divergent_groups_both_sides: u64,
    cases_with_pair_missing_in_a_kerning_master: u64,
    cases_with_non_default_master_without_kerning: u64,
    cases_with_default_master_without_kerning: u64,
    cases_with_intermediate_master: u64,
    cases_with_pair_value_varying_between_masters: u64,
    cases_with_explicit_zero_exception: u64,
    cases_with_half_value_rounding: u64,
    cases_nontrivial: u64,
    /// a NON-default master that has kerning entries, all of them 0, while another master has a non-zero one
    cases_with_all_zero_non_default_master: u64,
    cases_with_all_zero_default_master: u64,
    /// ... and that master lies strictly between two masters (on the axis) that have a non-zero value
    cases_with_all_zero_master_between_kerning_masters: u64,
    /// a group named `<other group of the side>_<digits>`
    cases_with_group_named_like_a_numbered_part_of_another: u64,
    /// ... while the other group's membership differs between masters
    cases_with_such_a_name_beside_a_divergent_group: u64,
    cases_with_extra_group: u64,
    glyphs_route_fonts_judged: u64,
    glyphs_route_fonts_judged_nontrivial: u64,
    glyphs_route_masters_asserted: u64,
    ufo_route_fonts_judged: u64,
}

fn add_stats(a: &mut Stats, b: &Stats) {
    let mut va = serde_json::to_value(&*a).unwrap();
    vcore::merge_counts(&mut va, &serde_json::to_value(b).unwrap());
    let m = va.as_object().unwrap();
    macro_rules! get {
        ($($f:ident),*) => { $( a.$f = m[stringify!($f)].as_u64().unwrap_or(0); )* };
    }
    get!(
        cases,
        builds_failed,
        fonts_without_gpos,
        fonts_with_pairpos_format1,
        fonts_with_pairpos_format2,
        fonts_with_several_kern_lookups,
        fonts_with_gdef_variation_store,
        masters_asserted,
        masters_not_asserted_no_kerning,
        comparisons,
        comparisons_nonzero_expected,
        comparisons_answered_by_glyph_glyph,
        comparisons_answered_by_glyph_group,
        comparisons_answered_by_group_glyph,
        comparisons_answered_by_group_group,
        comparisons_where_a_higher_level_overrides_a_lower,
        comparisons_with_fractional_region_scalars,
        cases_with_exception_glyph_glyph_over_group_group,
        cases_with_glyph_group_vs_group_glyph_conflict,
        cases_with_divergent_groups_side1,
        cases_with_divergent_groups_side2,
        cases_with_divergent_groups_both_sides,
        cases_with_pair_missing_in_a_kerning_master,
        cases_with_non_default_master_without_kerning,
        cases_with_default_master_without_kerning,
        cases_with_intermediate_master,
        cases_with_pair_value_varying_between_masters,
        cases_with_explicit_zero_exception,
        cases_with_half_value_rounding,
        cases_nontrivial,
        cases_with_all_zero_non_default_master,
        cases_with_all_zero_default_master,
        cases_with_all_zero_master_between_kerning_masters,
        cases_with_group_named_like_a_numbered_part_of_another,
        cases_with_such_a_name_beside_a_divergent_group,
        cases_with_extra_group,
        glyphs_route_fonts_judged,
        glyphs_route_fonts_judged_nontrivial,
        glyphs_route_masters_asserted,
        ufo_route_fonts_judged
    );
}

#[derive(Clone, Debug, Serialize)]
struct Mismatch {
    first: String,
    second: String,
    master: usize,
    script: String,
    lang: String,
    coords: Vec<f64>,
    expected: f64,
    expected_unrounded: f64,
    answered_by: &'static str,
    observed: f64,
    tolerance: f64,
}

struct EvalOut {
    /// (class, what, extra replay fields)
    viol: Vec<(String, String, Value)>,
    machinery: Vec<String>,
    stats: Stats,
    summary: Value,
}

/// What the Design says about itself; the violation key is built from this (not from the Case), so a
/// replay file's design alone reproduces the key.
struct Shape {
    key_shapes: String,
    div1: bool,
    div2: bool,
    missing: bool,
    nokern_master: bool,
    /// masters whose kerning is non-empty and all 0 while another master has a non-zero value
    zero_masters: Vec<usize>,
    /// some group is named `<X>_<digits>` where X is another group of the same side
    numbered_name: bool,
    /// ... and X's membership differs between masters
    numbered_name_of_divergent: bool,
    /// the groups so named (full names)
    numbered_of_divergent: Vec<String>,
}

fn is_group(n: &str) -> bool {
    n.starts_with("public.kern")
}

fn design_shape(d: &Design) -> Shape {
    let mut shapes = BTreeSet::new();
    for m in &d.masters {
        for (a, b) in m.kerning.keys() {
            shapes.insert(match (is_group(a), is_group(b)) {
                (false, false) => "glyph-glyph",
                (false, true) => "glyph-group",
                (true, false) => "group-glyph",
                (true, true) => "group-group",
            });
        }
    }
    let side = |m: &Master, pre: &str| -> BTreeMap<String, Vec<String>> {
        m.groups.iter().filter(|(k, _)| k.starts_with(pre)).map(|(k, v)| (k.clone(), v.clone())).collect()
    };
    let div1 = d.masters.iter().any(|m| side(m, K1) != side(&d.masters[0], K1));
    let div2 = d.masters.iter().any(|m| side(m, K2) != side(&d.masters[0], K2));
    let with: Vec<&Master> = d.masters.iter().filter(|m| !m.kerning.is_empty()).collect();
    let missing = with.iter().any(|m| {
        with.iter().any(|o| o.kerning.keys().any(|k| !m.kerning.contains_key(k)))
    });
    let nokern_master = d.masters.iter().any(|m| m.kerning.is_empty());
    let any_nonzero = d.masters.iter().any(|m| m.kerning.values().any(|v| *v != 0.0));
    let zero_masters: Vec<usize> = (0..d.masters.len())
        .filter(|m| {
            let k = &d.masters[*m].kerning;
            any_nonzero && !k.is_empty() && k.values().all(|v| *v == 0.0)
        })
        .collect();
    let mut numbered_name = false;
    let mut numbered_name_of_divergent = false;
    let mut numbered_of_divergent: Vec<String> = vec![];
    let names: BTreeSet<&String> = d.masters.iter().flat_map(|m| m.groups.keys()).collect();
    for y in &names {
        for x in &names {
            let Some(rest) = y.strip_prefix(x.as_str()).and_then(|r| r.strip_prefix('_')) else { continue };
            if rest.is_empty() || !rest.bytes().all(|b| b.is_ascii_digit()) {
                continue;
            }
            numbered_name = true;
            if d.masters.iter().any(|m| m.groups.get(*x) != d.masters[0].groups.get(*x)) {
                numbered_name_of_divergent = true;
                if !numbered_of_divergent.contains(*y) {
                    numbered_of_divergent.push((*y).clone());
                }
            }
        }
    }
    Shape {
        key_shapes: shapes.into_iter().collect::<Vec<_>>().join("+"),
        div1,
        div2,
        missing,
        nokern_master,
        zero_masters,
        numbered_name,
        numbered_name_of_divergent,
        numbered_of_divergent,
    }
}

fn viol_key(class: &str, sh: &Shape) -> String {
    let div = match (sh.div1, sh.div2) {
        (false, false) => "no",
        (true, false) => "side1",
        (false, true) => "side2",
        (true, true) => "both",
    };
    let missing = match (sh.missing, sh.nokern_master) {
        (false, false) => "no",
        (true, false) => "yes",
        (false, true) => "kernless-master",
        (true, true) => "yes+kernless-master",
    };
    // the two suffixes appear only when the design has the feature, so the keys of all other designs are
    // what they were before these features joined the alphabet
    let zero = if sh.zero_masters.is_empty() { "" } else { ":all-zero-kerning-master=yes" };
    let numbered = if sh.numbered_name_of_divergent {
        ":group-named-like-numbered-part-of-divergent-group=yes"
    } else {
        ""
    };
    format!("{class}:{}:divergent-groups={div}:pair-missing-in-master={missing}{zero}{numbered}", sh.key_shapes)
}

/// One compile on a thread of its own, so that std's per-thread hash keys (drawn from the shimmed
/// getrandom) do not depend on what the worker compiled before: the result is a function of
/// (design, VERIF_HASH_SEED). A fresh thread costs 15-35 ms against 2.5 ms for the compile itself, so the
/// sweep compiles on its worker threads and only failures are confirmed this way.
fn compile_fresh(path: &std::path::Path) -> Result<Vec<u8>, fcx::Failure> {
    std::thread::scope(|s| {
        s.spawn(|| fcx::compile(path, &fcx::Opts::default(), None))
            .join()
            .unwrap_or_else(|_| Err(fcx::Failure::Panic("compile thread died".into())))
    })
}

/// (number of PairPos format 1 subtables, format 2 subtables) in GPOS, extension lookups resolved
fn pairpos_formats(bytes: &[u8]) -> Result<(usize, usize), String> {
    let font = FontRef::new(bytes).map_err(|e| e.to_string())?;
    if font.table_data(write_fonts::types::Tag::new(b"GPOS")).is_none() {
        return Ok((0, 0));
    }
    let gpos = font.gpos().map_err(|e| e.to_string())?;
    let ll = gpos.lookup_list().map_err(|e| e.to_string())?;
    let (mut f1, mut f2) = (0, 0);
    for l in ll.lookups().iter() {
        let l = l.map_err(|e| e.to_string())?;
        if let Ok(PositionSubtables::Pair(sts)) = l.subtables() {
            for st in sts.iter() {
                match st.map_err(|e| e.to_string())? {
                    PairPos::Format1(_) => f1 += 1,
                    PairPos::Format2(_) => f2 += 1,
                }
            }
        }
    }
    Ok((f1, f2))
}

/// The masters (of `model`, indices into `coords`) at which the font must reproduce the rounded master
/// value EXACTLY, derived from the font's own variation regions and nothing else.
///
/// Premise (the one behind the usual 1/2 allowance): the compiler picks real deltas d_r such that
/// default + sum_r scalar_r(master) * d_r equals the rounded master value at every participating master,
/// then stores round(d_r). A master M is exact if (a) every region's scalar at M is 0 or 1, (b) exactly
/// one region peaks at M, and (c) every other region active at M peaks at exactly one other
/// participating master that is itself exact: then d of M's own region is an integer minus integers, so
/// nothing is lost to rounding. Anything that does not fit this shape gets the 1/2-per-delta allowance.
fn exact_masters(
    regions: &[Vec<(f64, f64, f64)>],
    coords: &[Vec<f64>],
    model: &[usize],
    default: usize,
) -> BTreeSet<usize> {
    let scalar = |r: &Vec<(f64, f64, f64)>, at: &Vec<f64>| otvar::ivs::region_scalar(at, r);
    let peaks_at = |r: &Vec<(f64, f64, f64)>, at: &Vec<f64>| {
        r.len() == at.len() && r.iter().zip(at).all(|((_, p, _), c)| p == c)
    };
    // owner[r] = the one participating master the region peaks at
    let owner: Vec<Option<usize>> = regions
        .iter()
        .map(|r| {
            let o: Vec<usize> = model.iter().copied().filter(|m| peaks_at(r, &coords[*m])).collect();
            if o.len() == 1 { Some(o[0]) } else { None }
        })
        .collect();
    fn go(
        m: usize,
        default: usize,
        regions: &[Vec<(f64, f64, f64)>],
        coords: &[Vec<f64>],
        owner: &[Option<usize>],
        scalar: &dyn Fn(&Vec<(f64, f64, f64)>, &Vec<f64>) -> f64,
        visiting: &mut Vec<usize>,
    ) -> bool {
        let s: Vec<f64> = regions.iter().map(|r| scalar(r, &coords[m])).collect();
        if m == default {
            return s.iter().all(|x| *x == 0.0);
        }
        if visiting.contains(&m) || s.iter().any(|x| *x != 0.0 && *x != 1.0) {
            return false;
        }
        let own: Vec<usize> = (0..regions.len()).filter(|r| owner[*r] == Some(m)).collect();
        if own.len() != 1 || s[own[0]] != 1.0 {
            return false;
        }
        visiting.push(m);
        let mut ok = true;
        for r in 0..regions.len() {
            if s[r] == 0.0 || r == own[0] {
                continue;
            }
            ok &= match owner[r] {
                Some(o) if o != m => go(o, default, regions, coords, owner, scalar, visiting),
                _ => false,
            };
        }
        visiting.pop();
        ok
    }
    model
        .iter()
        .copied()
        .filter(|m| go(*m, default, regions, coords, &owner, &scalar, &mut vec![]))
        .collect()
}

/// The design with every group named like a numbered part of a divergent group renamed to a name that
/// is unrelated to every other group name (`H`, `H2`, ...); the kerning keys follow. Membership, values and
/// therefore the reference are untouched.
fn with_unrelated_names(d: &Design, sh: &Shape) -> Design {
    let mut d2 = d.clone();
    let all: BTreeSet<String> = d.masters.iter().flat_map(|m| m.groups.keys().cloned()).collect();
    let mut n = 0;
    for old in &sh.numbered_of_divergent {
        let pre = if old.starts_with(K1) { K1 } else { K2 };
        let new = loop {
            n += 1;
            let cand = if n == 1 { format!("{pre}H") } else { format!("{pre}H{n}") };
            if !all.contains(&cand) {
                break cand;
            }
        };
        for m in d2.masters.iter_mut() {
            if let Some(v) = m.groups.remove(old) {
                m.groups.insert(new.clone(), v);
            }
            let keys: Vec<(String, String)> = m.kerning.keys().filter(|(a, b)| a == old || b == old).cloned().collect();
            for k in keys {
                let v = m.kerning.remove(&k).unwrap();
                let k2 = (if &k.0 == old { new.clone() } else { k.0 }, if &k.1 == old { new.clone() } else { k.1 });
                m.kerning.insert(k2, v);
            }
        }
    }
    d2
}

/// `evaluate` on a fresh thread, plus one narrowing step for the violation key: when the design fails and
/// has a group named like a numbered part of a divergent group, the same design with that group given an
/// unrelated name is judged too; if that one passes, the NAME is what the failure hinges on and the key
/// says so (one key for the whole class instead of one per key-shape combination).
fn evaluate_confirm(d: &Design, src: Src) -> EvalOut {
    let mut out = evaluate(d, src, true);
    let sh = design_shape(d);
    let mismatch = out.viol.iter().any(|(k, _, _)| k.starts_with("kern-mismatch") || k.starts_with("kern-feature-missing"));
    if mismatch && sh.numbered_name_of_divergent {
        let d2 = with_unrelated_names(d, &sh);
        let other = evaluate(&d2, src, true);
        if other.viol.is_empty() && other.machinery.is_empty() {
            let div = match (sh.div1, sh.div2) {
                (true, false) => "side1",
                (false, true) => "side2",
                _ => "both",
            };
            for (k, w, _) in out.viol.iter_mut() {
                if k.starts_with("kern-mismatch") || k.starts_with("kern-feature-missing") {
                    let class = k.split(':').next().unwrap_or("kern-mismatch").to_string();
                    *k = format!("{class}:only-when-a-group-is-named-like-a-numbered-part-of-a-divergent-group:divergent-groups={div}");
                    w.push_str(&format!(
                        "; the same design with {:?} renamed to an unrelated name passes",
                        sh.numbered_of_divergent
                    ));
                }
            }
        }
    }
    out
}

const LEVEL_NAMES: [&str; 5] = ["glyph-glyph", "glyph-group", "group-glyph", "group-group", "none(0)"];

/// `fresh`: compile on a thread of its own (deterministic hash keys, ~10x dearer — used to confirm a
/// failure and in replays); otherwise on the calling worker thread.
fn evaluate(d: &Design, src: Src, fresh: bool) -> EvalOut {
    let mut out = EvalOut { viol: vec![], machinery: vec![], stats: Stats::default(), summary: Value::Null };
    let st = &mut out.stats;
    st.cases = 1;
    let sh = design_shape(d);
    let nm = d.masters.len();
    let with_kerning: Vec<usize> = (0..nm).filter(|m| !d.masters[*m].kerning.is_empty()).collect();

    // ---- the reference, and what this case exercises
    // expected[m][i][j]
    let mut expected: Vec<Vec<Vec<(f64, f64, u8, u8)>>> = vec![];
    for m in 0..nm {
        let mut t = vec![];
        for g1 in GLYPHS {
            let mut row = vec![];
            for g2 in GLYPHS {
                let (v, lvl, mask) = ufo_lookup(&d.masters[m], g1, g2);
                row.push((ot_round(v), v, lvl, mask));
            }
            t.push(row);
        }
        expected.push(t);
    }
    let mut exc = false;
    let mut conflict = false;
    let mut zero_exc = false;
    let mut half = false;
    let mut varying = false;
    let mut any_nonzero = false;
    for &m in &with_kerning {
        for i in 0..4 {
            for j in 0..4 {
                let (r, v, lvl, mask) = expected[m][i][j];
                if lvl == 0 && mask & 8 != 0 {
                    exc = true;
                }
                if mask & 2 != 0 && mask & 4 != 0 {
                    conflict = true;
                }
                if lvl < 3 && v == 0.0 && (mask >> (lvl + 1)) != 0 {
                    zero_exc = true;
                }
                if v != v.trunc() {
                    half = true;
                }
                if r != 0.0 {
                    any_nonzero = true;
                }
                if with_kerning.iter().any(|o| expected[*o][i][j].0 != r) {
                    varying = true;
                }
            }
        }
    }
    st.cases_with_exception_glyph_glyph_over_group_group = exc as u64;
    st.cases_with_glyph_group_vs_group_glyph_conflict = conflict as u64;
    st.cases_with_explicit_zero_exception = zero_exc as u64;
    st.cases_with_half_value_rounding = half as u64;
    st.cases_with_pair_value_varying_between_masters = varying as u64;
    st.cases_with_divergent_groups_side1 = (sh.div1 && !sh.div2) as u64;
    st.cases_with_divergent_groups_side2 = (sh.div2 && !sh.div1) as u64;
    st.cases_with_divergent_groups_both_sides = (sh.div1 && sh.div2) as u64;
    st.cases_with_pair_missing_in_a_kerning_master = sh.missing as u64;
    st.cases_with_default_master_without_kerning = d.masters[d.default_master].kerning.is_empty() as u64;
    st.cases_with_non_default_master_without_kerning =
        (0..nm).any(|m| m != d.default_master && d.masters[m].kerning.is_empty()) as u64;
    let norm: Vec<Vec<f64>> = (0..nm).map(|m| d.master_norm(m)).collect();
    let has_intermediate = norm.iter().any(|l| l.iter().any(|v| *v != 0.0 && v.abs() != 1.0));
    st.cases_with_intermediate_master = has_intermediate as u64;
    st.cases_with_all_zero_non_default_master = sh.zero_masters.iter().any(|m| *m != d.default_master) as u64;
    st.cases_with_all_zero_default_master = sh.zero_masters.contains(&d.default_master) as u64;
    if d.axes.len() == 1 {
        let pos = |m: usize| d.masters[m].loc[0];
        let nz: Vec<usize> = (0..nm).filter(|m| d.masters[*m].kerning.values().any(|v| *v != 0.0)).collect();
        st.cases_with_all_zero_master_between_kerning_masters = sh
            .zero_masters
            .iter()
            .any(|z| nz.iter().any(|a| pos(*a) < pos(*z)) && nz.iter().any(|b| pos(*b) > pos(*z))) as u64;
    }
    st.cases_with_group_named_like_a_numbered_part_of_another = sh.numbered_name as u64;
    st.cases_with_such_a_name_beside_a_divergent_group = sh.numbered_name_of_divergent as u64;
    st.cases_with_extra_group = d.masters[0].groups.values().any(|g| g.iter().any(|x| x == EXTRA_MEMBER)) as u64;
    st.masters_not_asserted_no_kerning = (nm - with_kerning.len()) as u64;

    // ---- compile
    let prof = std::env::var("C09_PROFILE").is_ok();
    let tp = std::time::Instant::now();
    let sc = vcore::Scratch::new("c09");
    let written = match src {
        Src::Ufo => d.write_designspace(sc.path()),
        Src::Glyphs3 => d.write_glyphs3(sc.path()),
    };
    let path = match written {
        Ok(p) => p,
        Err(e) => {
            out.machinery.push(format!("cannot write the source: {e}"));
            return out;
        }
    };
    let t_write = tp.elapsed();
    let r = if fresh { compile_fresh(&path) } else { fcx::compile(&path, &fcx::Opts::default(), None) };
    let t_compile = tp.elapsed();
    drop(sc);
    let t_drop = tp.elapsed();
    let bytes = match r {
        Ok(b) => b,
        Err(e) => {
            st.builds_failed = 1;
            let msg = format!("{e:?}");
            out.viol.push((
                format!("build-fails:{}", slug(&msg)),
                format!("a well-formed source with kerning does not build: {msg}"),
                json!({}),
            ));
            return out;
        }
    };
    let vf = match VFont::new(&bytes) {
        Ok(v) => v,
        Err(e) => {
            out.machinery.push(format!("otvar cannot read the font: {e}"));
            return out;
        }
    };
    let lf = match LFont::new(&bytes) {
        Ok(v) => v,
        Err(e) => {
            out.viol.push(("layout-tables-unreadable".into(), format!("GSUB/GPOS/GDEF do not parse: {e}"), json!({})));
            return out;
        }
    };
    let mut gids = vec![];
    for g in GLYPHS {
        match vf.gid_for_name(g) {
            Some(i) => gids.push(i),
            None => {
                out.machinery.push(format!("glyph {g} not found in the font by name"));
                return out;
            }
        }
    }
    match pairpos_formats(&bytes) {
        Ok((f1, f2)) => {
            st.fonts_with_pairpos_format1 = (f1 > 0) as u64;
            st.fonts_with_pairpos_format2 = (f2 > 0) as u64;
        }
        Err(e) => out.machinery.push(format!("cannot walk GPOS: {e}")),
    }
    st.fonts_without_gpos = (!lf.has_table(Table::Gpos)) as u64;
    st.fonts_with_gdef_variation_store = vf.gdef_store().is_some() as u64;

    // scripts to ask for: what the font registers plus the two a Latin font must serve
    let mut langsys: Vec<(String, String)> = vec![("DFLT".into(), "dflt".into()), ("latn".into(), "dflt".into())];
    for (s, langs) in lf.scripts(Table::Gpos) {
        for l in langs {
            if !langsys.contains(&(s.clone(), l.clone())) {
                langsys.push((s.clone(), l));
            }
        }
    }

    // ---- font's own coordinates of the masters, and the rounding allowance
    let coords: Vec<Vec<f64>> = (0..nm)
        .map(|m| {
            let user: Vec<(String, f64)> =
                d.axes.iter().zip(d.master_user(m)).map(|(a, u)| (a.tag.clone(), u)).collect();
            vf.normalize(&user)
        })
        .collect();
    // Masters that take part in the kerning model: the default one and every one with kerning. The
    // masters' values are rounded before deltas are computed and the font stores integer deltas, so the
    // font is exact at a master whenever the deltas it sums there are provably integers (`exact_masters`);
    // otherwise each stored delta may be off by 1/2, weighted by its region's scalar at the master.
    let model: Vec<usize> = (0..nm).filter(|m| *m == d.default_master || with_kerning.contains(m)).collect();
    let regions: Vec<Vec<(f64, f64, f64)>> = vf.gdef_store().map(|s| s.regions.clone()).unwrap_or_default();
    let scalars_at = |m: usize| -> Vec<f64> { vf.gdef_store().map(|s| s.region_scalars(&coords[m])).unwrap_or_default() };
    let exact = exact_masters(&regions, &coords, &model, d.default_master);
    let tol_at = |m: usize| -> f64 {
        if exact.contains(&m) { 1e-9 } else { 0.5 * scalars_at(m).iter().sum::<f64>() + 1e-6 }
    };

    let mut mismatches: Vec<Mismatch> = vec![];
    let mut problems: BTreeSet<String> = BTreeSet::new();
    let mut several_lookups = false;
    let mut observed_tables: Vec<Value> = vec![];
    for &m in &with_kerning {
        st.masters_asserted += 1;
        let tol = tol_at(m);
        for (script, lang) in &langsys {
            let req = ShapeRequest {
                script: script.clone(),
                lang: lang.clone(),
                features: FeatureSel::Only(vec!["kern".into()]),
                coords: coords[m].clone(),
                gsub: false,
                gpos: true,
                alternate_index: 0,
            };
            let mut table = vec![];
            for i in 0..4 {
                for j in 0..4 {
                    let r = lf.shape(&req, &[gids[i], gids[j]]);
                    for p in &r.problems {
                        problems.insert(p.clone());
                    }
                    if r.lookups_selected.len() > 1 {
                        several_lookups = true;
                    }
                    if r.glyphs.len() != 2 {
                        problems.insert("shaping a pair did not return two glyphs".into());
                        continue;
                    }
                    let obs = r.glyphs[0].x_advance_adj + r.glyphs[1].x_offset;
                    table.push(obs);
                    let (exp, raw, lvl, mask) = expected[m][i][j];
                    st.comparisons += 1;
                    if exp != 0.0 {
                        st.comparisons_nonzero_expected += 1;
                    }
                    match lvl {
                        0 => st.comparisons_answered_by_glyph_glyph += 1,
                        1 => st.comparisons_answered_by_glyph_group += 1,
                        2 => st.comparisons_answered_by_group_glyph += 1,
                        3 => st.comparisons_answered_by_group_group += 1,
                        _ => {}
                    }
                    if lvl < 4 && (mask >> (lvl + 1)) != 0 {
                        st.comparisons_where_a_higher_level_overrides_a_lower += 1;
                    }
                    if !exact.contains(&m) {
                        st.comparisons_with_fractional_region_scalars += 1;
                    }
                    // a vertical / second-glyph side effect would also be wrong for plain kerning
                    let stray = r.glyphs[0].y_advance_adj != 0.0
                        || r.glyphs[0].y_offset != 0.0
                        || r.glyphs[1].y_offset != 0.0
                        || r.glyphs[1].y_advance_adj != 0.0;
                    if (obs - exp).abs() > tol || stray {
                        mismatches.push(Mismatch {
                            first: GLYPHS[i].into(),
                            second: GLYPHS[j].into(),
                            master: m,
                            script: script.clone(),
                            lang: lang.clone(),
                            coords: coords[m].clone(),
                            expected: exp,
                            expected_unrounded: raw,
                            answered_by: LEVEL_NAMES[lvl as usize],
                            observed: obs,
                            tolerance: tol,
                        });
                    }
                }
            }
            if script == "latn" && lang == "dflt" {
                observed_tables.push(json!({"master": m, "coords": coords[m], "latn": table}));
            }
        }
    }
    st.fonts_with_several_kern_lookups = several_lookups as u64;
    if prof {
        eprintln!("profile: write {t_write:?} compile {t_compile:?} drop {t_drop:?} total {:?}", tp.elapsed());
    }
    let nontrivial = any_nonzero && !with_kerning.is_empty();
    st.cases_nontrivial = nontrivial as u64;
    match src {
        Src::Ufo => st.ufo_route_fonts_judged = 1,
        Src::Glyphs3 => {
            st.glyphs_route_fonts_judged = 1;
            st.glyphs_route_fonts_judged_nontrivial = nontrivial as u64;
            st.glyphs_route_masters_asserted = with_kerning.len() as u64;
        }
    }
    if !problems.is_empty() {
        out.viol.push((
            "layout-engine-problems".into(),
            format!("the GPOS engine reports problems on the font: {:?}", problems),
            json!({}),
        ));
    }
    if !mismatches.is_empty() {
        let f = &mismatches[0];
        let kern_missing = any_nonzero
            && !langsys.iter().any(|(s, l)| {
                lf.feature_entries(Table::Gpos, s, l, &[]).iter().any(|e| e.tag == "kern")
            });
        let class = if kern_missing { "kern-feature-missing" } else { "kern-mismatch" };
        let what = format!(
            "{} + {} at master {} ({}; coords {:?}) under {}/{}: the font kerns {} but the master's own kerning gives {} \
             (lookup answered by {}, unrounded {}); {} of the case's comparisons differ",
            f.first,
            f.second,
            f.master,
            d.masters[f.master].name,
            f.coords,
            f.script,
            f.lang,
            num(f.observed),
            num(f.expected),
            f.answered_by,
            num(f.expected_unrounded),
            mismatches.len()
        );
        // every difference sits at a master whose own pairs are all 0: that is the class, whatever the key
        // shapes are
        let only_at_zero_masters =
            !sh.zero_masters.is_empty() && mismatches.iter().all(|m| sh.zero_masters.contains(&m.master));
        let key = if only_at_zero_masters {
            let dflt = mismatches.iter().any(|m| m.master == d.default_master);
            format!(
                "{class}:only-at-a-master-whose-pairs-are-all-0:that-master-is-default={}:divergent-groups={}",
                if dflt { "yes" } else { "no" },
                if sh.div1 || sh.div2 { "yes" } else { "no" }
            )
        } else {
            viol_key(class, &sh)
        };
        out.viol.push((
            key,
            what,
            json!({"first_mismatch": f, "mismatches": mismatches.iter().take(40).collect::<Vec<_>>()}),
        ));
    }
    out.summary = json!({
        "masters_asserted": with_kerning,
        "observed": observed_tables,
        "expected": with_kerning.iter().map(|m| json!({
            "master": m,
            "table": expected[*m].iter().flatten().map(|e| e.0).collect::<Vec<_>>()
        })).collect::<Vec<_>>(),
    });
    out
}

fn slug(s: &str) -> String {
    let mut o = String::new();
    for c in s.chars() {
        if c.is_ascii_alphanumeric() {
            o.push(c.to_ascii_lowercase());
        } else if !o.ends_with('-') {
            o.push('-');
        }
        if o.len() >= 60 {
            break;
        }
    }
    o.trim_matches('-').to_string()
}

// ------------------------------------------------------------------------------------ replay

fn replay(path: &std::path::Path) -> ! {
    let s = std::fs::read_to_string(path).unwrap_or_else(|e| vcore::machinery_error(&format!("{path:?}: {e}")));
    let v: Value = serde_json::from_str(&s).unwrap_or_else(|e| vcore::machinery_error(&format!("{path:?}: {e}")));
    let r = v.get("replay").cloned().unwrap_or(v.clone());
    let d: Design = match serde_json::from_value::<Case>(r["case"].clone()) {
        Ok(c) if r.get("design").is_none() => build_design(&c),
        _ => serde_json::from_value(r["design"].clone())
            .unwrap_or_else(|e| vcore::machinery_error(&format!("replay has no usable design: {e}"))),
    };
    let src: Src = serde_json::from_value(r["case"]["src"].clone()).unwrap_or_default();
    println!("replaying {} (source format {src:?})", v["key"].as_str().unwrap_or("?"));
    if let Ok(c) = serde_json::from_value::<Case>(r["case"].clone()) {
        println!("source: {}", c.label());
    }
    for (mi, m) in d.masters.iter().enumerate() {
        println!("master {mi} at {:?}: groups {:?} kerning {:?}", m.loc, m.groups, m.kerning);
    }
    let out = evaluate_confirm(&d, src);
    for m in &out.machinery {
        println!("machinery: {m}");
    }
    for (k, w, extra) in &out.viol {
        println!("{k}: {w}");
        if let Some(ms) = extra.get("mismatches").and_then(|m| m.as_array()) {
            for m in ms {
                println!(
                    "  {}+{} master {} {}/{}: expected {} observed {}",
                    m["first"].as_str().unwrap_or("?"),
                    m["second"].as_str().unwrap_or("?"),
                    m["master"],
                    m["script"].as_str().unwrap_or("?"),
                    m["lang"].as_str().unwrap_or("?"),
                    m["expected"],
                    m["observed"]
                );
            }
        }
    }
    println!("tables: {}", out.summary);
    vcore::cleanup_scratch();
    if !out.machinery.is_empty() && out.viol.is_empty() {
        std::process::exit(2);
    }
    if out.viol.is_empty() {
        println!("the case no longer fails");
        std::process::exit(0);
    }
    std::process::exit(1)
}

fn cpu_now() -> f64 {
    let mut ts = libc::timespec { tv_sec: 0, tv_nsec: 0 };
    unsafe { libc::clock_gettime(libc::CLOCK_PROCESS_CPUTIME_ID, &mut ts) };
    ts.tv_sec as f64 + ts.tv_nsec as f64 * 1e-9
}

/// debugging aid: CPU cost of the stages on one design
fn bench() -> ! {
    for with_kern in [false, true] {
        let c = Case {
            src: Src::Ufo,
            ms: MasterSet::Ends,
            groups: vec![(2, 2), (2, 2)],
            entries: if with_kern { vec![Entry { first: 2, second: 2, values: vec![Some(-50.0), Some(30.0)] }] } else { vec![] },
            extra: None,
        };
        let d = build_design(&c);
        let sc = vcore::Scratch::new("c09b");
        let path = d.write_designspace(sc.path()).unwrap();
        let (c0, t0) = (cpu_now(), std::time::Instant::now());
        for _ in 0..50 {
            let _ = fcx::compile(&path, &fcx::Opts::default(), None).unwrap();
        }
        println!("kerning={with_kern}: compile cpu {:.2} ms wall {:.2} ms", (cpu_now() - c0) * 20.0, t0.elapsed().as_secs_f64() * 20.0);
        let (c0, t0) = (cpu_now(), std::time::Instant::now());
        for _ in 0..50 {
            let _ = compile_fresh(&path).unwrap();
        }
        println!("kerning={with_kern}: compile_fresh cpu {:.2} ms wall {:.2} ms", (cpu_now() - c0) * 20.0, t0.elapsed().as_secs_f64() * 20.0);
        let b = fcx::compile(&path, &fcx::Opts::default(), None).unwrap();
        let (c0, t0) = (cpu_now(), std::time::Instant::now());
        for _ in 0..50 {
            let vf = VFont::new(&b).unwrap();
            let _ = vf.gid_for_name("A");
            let _ = LFont::new(&b).unwrap();
        }
        println!("kerning={with_kern}: open cpu {:.2} ms wall {:.2} ms", (cpu_now() - c0) * 20.0, t0.elapsed().as_secs_f64() * 20.0);
        let (c0, t0) = (cpu_now(), std::time::Instant::now());
        for _ in 0..50 {
            let sc2 = vcore::Scratch::new("c09b");
            let _ = d.write_designspace(sc2.path()).unwrap();
        }
        println!("kerning={with_kern}: write cpu {:.2} ms wall {:.2} ms", (cpu_now() - c0) * 20.0, t0.elapsed().as_secs_f64() * 20.0);
        let (c0, t0) = (cpu_now(), std::time::Instant::now());
        for _ in 0..50 {
            let _ = evaluate(&d, Src::Ufo, false);
        }
        println!("kerning={with_kern}: evaluate cpu {:.2} ms wall {:.2} ms", (cpu_now() - c0) * 20.0, t0.elapsed().as_secs_f64() * 20.0);
    }
    vcore::cleanup_scratch();
    std::process::exit(0)
}

// ------------------------------------------------------------------------------------ main

fn main() {
    let args = vcore::parse_args();
    // fixed hash keys for fresh threads: a confirmed verdict is a function of (case, seed), see `compile_fresh`
    vcore::ensure_shim(args.seed);
    std::panic::set_hook(Box::new(|info| {
        if info.location().is_some_and(|l| l.file().ends_with("c09.rs")) {
            eprintln!("harness panic: {info}");
        }
    }));
    if let Some(p) = &args.replay {
        replay(p);
    }
    if std::env::var("C09_BENCH").is_ok() {
        bench();
    }
    let subs = spaces(args.tier);
    let only = std::env::var("C09_ONLY").ok();
    // blocks = (sub-space, group configuration), in order of growing complexity
    let mut blocks: Vec<(usize, Vec<(u8, u8)>, Option<Extra>)> = vec![];
    let mut sub_counts: Vec<(String, usize, u64)> = vec![];
    const CHUNK: usize = 300;
    let mut items: Vec<(usize, usize, usize)> = vec![];
    for (si, sub) in subs.iter().enumerate() {
        if only.as_ref().is_some_and(|o| o != sub.name) {
            continue;
        }
        let cfgs = group_configs(sub);
        let mut n = 0u64;
        for cfg in &cfgs {
            for x in &sub.extras {
                n += block_cases(sub, cfg, x.as_ref(), true).1;
            }
        }
        sub_counts.push((sub.name.to_string(), cfgs.len() * sub.extras.len(), n));
        for cfg in cfgs {
            for x in &sub.extras {
                // work items: slices of a block, so that one big block does not keep a single thread busy
                // for the whole run
                let nb = block_cases(sub, &cfg, x.as_ref(), true).1 as usize;
                let mut from = 0;
                while from < nb {
                    items.push((blocks.len(), from, (from + CHUNK).min(nb)));
                    from += CHUNK;
                }
                blocks.push((si, cfg.clone(), x.clone()));
            }
        }
    }
    let total: u64 = sub_counts.iter().map(|s| s.2).sum();
    if std::env::var("C09_COUNT").is_ok() {
        for (n, c, k) in &sub_counts {
            println!("{n}: {c} group configurations (x extra-group alternatives), {k} cases (Glyphs twins included)");
        }
        println!("total {total}");
        std::process::exit(0);
    }
    let mut rep = Reporter::new("C09", "exploration", &args);
    let cap_s: f64 = std::env::var("C09_CAP_S").ok().and_then(|s| s.parse().ok()).unwrap_or(args.tier.pick(300.0, 3000.0) * vcore::budget_scale());
    let t0 = std::time::Instant::now();

    let results = vcore::par_for(items.len(), vcore::ncores(), |ii| {
        let (bi, from, to) = items[ii];
        let (si, cfg, extra) = &blocks[bi];
        let sub = &subs[*si];
        let mut stt = Stats::default();
        let mut viol: Vec<(String, String, Value)> = vec![];
        let mut machinery: Vec<String> = vec![];
        let mut samples: Vec<Value> = vec![];
        let mut seen = BTreeSet::new();
        let mut skipped = 0u64;
        let mut hashes: Vec<(u64, bool)> = vec![];
        let (cases, _) = block_cases(sub, cfg, extra.as_ref(), false);
        for (ci, case) in cases.iter().enumerate().take(to).skip(from) {
            if t0.elapsed().as_secs_f64() > cap_s {
                skipped += 1;
                continue;
            }
            let d = build_design(case);
            let h = vcore::hash64(serde_json::to_string(case).unwrap_or_default().as_bytes());
            let mut ev = evaluate(&d, case.src, false);
            hashes.push((h, ev.stats.cases_nontrivial == 1));
            add_stats(&mut stt, &ev.stats);
            if !ev.viol.is_empty() {
                // confirm under hash keys that are a function of the seed alone (what a replay will see)
                let again = evaluate_confirm(&d, case.src);
                if again.viol.is_empty() && again.machinery.is_empty() {
                    for v in ev.viol.iter_mut() {
                        v.0 = format!("{}:only-under-some-hash-orders", v.0);
                        v.1 = format!("{} (NOT reproduced when the same source is compiled on a fresh thread: the outcome depends on hash iteration order)", v.1);
                    }
                } else {
                    ev.viol = again.viol;
                    ev.machinery.extend(again.machinery);
                }
            }
            machinery.extend(ev.machinery.into_iter().map(|m| format!("{m} [{}]", case.label())));
            if (bi * 31 + ci) % 4099 == 7 && ev.viol.is_empty() {
                samples.push(json!({"sub_space": sub.name, "source": case.label(), "result": ev.summary}));
            }
            for (key, what, extra) in ev.viol {
                let key = if case.src == Src::Glyphs3 { format!("{key}:source=glyphs3") } else { key };
                if seen.insert(key.clone()) {
                    let mut r = json!({"design": serde_json::to_value(&d).unwrap_or(Value::Null), "case": case, "sub_space": sub.name});
                    if let (Some(a), Some(b)) = (r.as_object_mut(), extra.as_object()) {
                        for (k, v) in b {
                            a.insert(k.clone(), v.clone());
                        }
                    }
                    viol.push((key, format!("{what} [source: {}]", case.label()), r));
                } else {
                    // still counted as a case of that key
                    viol.push((key, String::new(), Value::Null));
                }
            }
        }
        (stt, viol, machinery, samples, skipped, hashes)
    });

    let mut total_st = Stats::default();
    let mut samples: Vec<Value> = vec![];
    let mut machinery: Vec<String> = vec![];
    let mut skipped = 0u64;
    let mut per_sub: BTreeMap<String, u64> = BTreeMap::new();
    let mut distinct: std::collections::HashSet<u64> = Default::default();
    let mut distinct_nontrivial: std::collections::HashSet<u64> = Default::default();
    for (ii, (stt, viol, mach, s, sk, hashes)) in results.into_iter().enumerate() {
        let bi = items[ii].0;
        for (h, nt) in hashes {
            distinct.insert(h);
            if nt {
                distinct_nontrivial.insert(h);
            }
        }
        *per_sub.entry(subs[blocks[bi].0].name.to_string()).or_default() += stt.cases;
        add_stats(&mut total_st, &stt);
        for (k, w, r) in viol {
            rep.violation(&k, &w, r);
        }
        machinery.extend(mach);
        if samples.len() < 12 {
            samples.extend(s);
        }
        skipped += sk;
    }
    if !machinery.is_empty() {
        for m in machinery.iter().take(10) {
            eprintln!("machinery: {m}");
        }
        vcore::machinery_error(&format!("{} cases could not be judged", machinery.len()));
    }
    samples.truncate(12);

    rep.set("evaluations", total_st.cases);
    rep.set("distinct_designs", distinct.len());
    rep.set("distinct_nontrivial", distinct_nontrivial.len());
    rep.set(
        "rule",
        "number of distinct (by hash of the case description; sub-spaces may overlap) generated designs that have at least one \
         master with kerning and at least one (ordered pair, master) whose reference value is non-zero, all built and compared \
         against the font's kern feature",
    );
    rep.set("exhaustive", skipped == 0);
    if skipped > 0 {
        rep.set("cases_skipped_by_time_cap", skipped);
        rep.set("time_cap_s", cap_s);
    }
    rep.set("cases_planned", total);
    rep.set(
        "sub_spaces",
        Value::Array(
            sub_counts
                .iter()
                .map(|(n, c, k)| json!({"name": n, "group_configurations": c, "cases": k, "evaluated": per_sub.get(n).copied().unwrap_or(0)}))
                .collect(),
        ),
    );
    rep.set(
        "alphabet",
        json!({
            "glyphs": "A B C D (U+0041..U+0044), advance 600, one rectangle each",
            "group_patterns_per_side": {
                "0": "none", "1": "G1={A,B}", "2": "G1={A,B} G2={C}", "3": "G1={A,B,C}", "4": "G1={A} G2={B,C} (thorough only)",
                "5": "G1={A} (thorough only)"
            },
            "extra_group": format!(
                "in the sub-spaces that list extra-group alternatives: one further group {{{EXTRA_MEMBER}}}, identical in every master, on side 1 or on side 2, \
                 named one of {EXTRA_NAMES:?} (unrelated / G1 with the suffixes _1 _2 _0 1); every group configuration x every (side, name); \
                 only key sets in which some key names that group"
            ),
            "key_names_per_side": ["A", "C", "G1", "G2", "the extra group (on its side)"],
            "glyphs_twins": "sub-spaces with glyphs_twin=true also compile the Glyphs 3 file of every case whose groups are the same in every master (all of them, these sub-spaces being uniform)",
            "sub_space_definitions": subs.iter().filter(|s| only.as_ref().is_none_or(|o| o == s.name)).map(|s| json!({
                "name": s.name, "source_format": format!("{:?}", s.src), "masters": s.ms.name(), "patterns": s.patterns, "group_mode": format!("{:?}", s.mode),
                "min_keys": s.min_keys, "max_keys": s.max_keys, "must_use_pattern": s.must_use,
                "extra_group_alternatives": s.extras.iter().flatten().map(|x| format!("side{}:{}", x.side, x.name)).collect::<Vec<_>>(),
                "glyphs_twin": s.twin,
                "per_key_value_options": s.opts.iter().map(|o| o.iter().map(|v| v.map(num).unwrap_or("-".into())).collect::<Vec<_>>().join(",")).collect::<Vec<_>>()
            })).collect::<Vec<_>>(),
        }),
    );
    let stv = serde_json::to_value(&total_st).unwrap();
    for (k, v) in stv.as_object().unwrap() {
        if k != "cases" {
            rep.set(k, v.clone());
        }
    }
    rep.set("samples", Value::Array(samples));
    rep.assume("only masters whose kerning.plist is non-empty are asserted (the property speaks of masters that define kerning); a master without kerning is left out of the reference entirely");
    rep.assume("a kerning key is written into a master only if the groups it names exist in that master (no dangling group references); a glyph is in at most one group per side");
    rep.assume("Latin codepoints only and no marks, so that the kern feature is one left-to-right lookup set registered for DFLT and latn; every language system the font registers is checked");
    rep.assume("equality is exact when every region of the GDEF variation store has scalar 0 or 1 at every master taking part in kerning (all deltas are then integers, master values being rounded first); otherwise |error| <= 1/2 * sum of region scalars at the master");
    rep.finish()
}
