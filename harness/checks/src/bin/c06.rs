//! C06 — the glyph set, glyph order and cmap are exactly what the source declares.
//!
//! Bounded-exhaustive enumeration of small UFO / designspace sources (written from the abstract
//! `dgen::Design`), compiled in process with the real compiler, judged by a reference computed
//! from the `Design` alone:
//!
//!   reference order = `.notdef` (synthesised when absent or not exported)
//!                   + exported glyphs named in public.glyphOrder, in that order
//!                   + remaining exported glyphs sorted by name (byte order, as ufo2ft `sorted`)
//!                   + glyphs the compiler derives (`X.<n>`, smallest free n) appended.
//!
//! The emitted font is read back (maxp, post, cmap by an own decoder, glyf, hmtx, gvar, GSUB, GPOS)
//! and compared with that reference.
//!
//! Several complete sub-spaces are enumerated (the full product is too large), see `spaces()`.
//! `names-collide` enumerates collisions of final glyph names (see `Clash` for what is asserted);
//! the `g3-*` spaces compile Glyphs 3 twins of the order spaces (undeclared glyphs in file order).
use dgen::{Axis, Component, Design, Glyph, Layer, shapes};
use serde::{Deserialize, Serialize};
use serde_json::{Value, json};
use std::collections::{BTreeMap, BTreeSet, HashSet};
use vcore::{Reporter, Tier};
use write_fonts::read::{
    FontRef, TableProvider,
    tables::{
        glyf::{Anchor, Glyph as RGlyph},
        gpos::{ExtensionSubtable as PosExt, PairPos, PositionLookup},
        gsub::{ExtensionSubtable as SubExt, SingleSubst, SubstitutionLookup},
    },
    types::{GlyphId, GlyphId16},
};

// ------------------------------------------------------------------------------------ cases

#[derive(Debug, Clone, Serialize, Deserialize, PartialEq)]
struct GSpec {
    name: String,
    export: bool,
    cps: Vec<u32>,
    /// has an own contour
    contour: bool,
    /// component bases, in order
    comps: Vec<String>,
}

#[derive(Debug, Clone, Serialize, Deserialize, PartialEq, Default)]
struct Case {
    space: String,
    glyphs: Vec<GSpec>,
    order: Option<Vec<String>>,
    ps: BTreeMap<String, String>,
    no_prefer_simple: bool,
    no_production_names: bool,
    variable: bool,
    fea: Option<String>,
    /// (first, second) kerning entries (glyph or group names), value −50
    kern: Vec<(String, String)>,
    groups: BTreeMap<String, Vec<String>>,
    /// compile the Glyphs 3 twin of the design (`Design::write_glyphs3`) instead of the UFO
    #[serde(default)]
    glyphs3: bool,
}

const KERN_VALUE: f64 = -50.0;

/// stable per-name number that makes every glyph's drawing unique
fn shape_id(name: &str) -> f64 {
    const POOL: [&str; 15] = [
        ".notdef", "A", "B", "C", "D", "E", "A.0", "A.1", "a", "Z", "A.alt", "b", "A.2", "A.1.1", "B.1",
    ];
    POOL.iter().position(|n| *n == name).unwrap_or(POOL.len()) as f64
}

fn default_cp(name: &str) -> Vec<u32> {
    match name {
        "A" => vec![0x41],
        "B" => vec![0x42],
        "C" => vec![0x43],
        "D" => vec![0x44],
        "E" => vec![0x45],
        "a" => vec![0x61],
        "b" => vec![0x62],
        "Z" => vec![0x5A],
        _ => vec![],
    }
}

fn simple(name: &str) -> GSpec {
    GSpec {
        name: name.into(),
        export: true,
        cps: default_cp(name),
        contour: true,
        comps: vec![],
    }
}

fn build(case: &Case) -> (Design, fcx::Opts) {
    let nm = if case.variable { 2 } else { 1 };
    let mut d = if case.variable {
        Design::skeleton(
            "C06",
            vec![Axis::new("wght", "Weight", 400.0, 400.0, 700.0)],
            vec![vec![400.0], vec![700.0]],
        )
    } else {
        Design::static_font("C06")
    };
    for g in &case.glyphs {
        let s = shape_id(&g.name);
        let mut gl = Glyph::new(&g.name, &g.cps);
        gl.export = g.export;
        for m in 0..nm {
            let grow = 40.0 * m as f64;
            let mut layer = Layer {
                advance: 500.0 + 10.0 * s + grow,
                ..Default::default()
            };
            if g.contour {
                layer.contours.push(shapes::rect(
                    20.0 + 3.0 * s,
                    5.0 * s,
                    20.0 + 3.0 * s + 100.0 + 13.0 * s + grow,
                    300.0 + 17.0 * s,
                ));
            }
            for (k, base) in g.comps.iter().enumerate() {
                let k1 = (k + 1) as f64;
                layer.components.push(Component::at(
                    base,
                    1000.0 * k1 + 31.0 * s + grow,
                    400.0 * k1 + 7.0 * s,
                ));
            }
            gl.layers.insert(m, layer);
        }
        d.glyphs.push(gl);
    }
    d.glyph_order = case.order.clone();
    d.postscript_names = case.ps.clone();
    d.features_fea = case.fea.clone();
    for m in d.masters.iter_mut() {
        for (a, b) in &case.kern {
            m.kerning.insert((a.clone(), b.clone()), KERN_VALUE);
        }
        m.groups = case.groups.clone();
    }
    let opts = fcx::Opts {
        no_prefer_simple: case.no_prefer_simple,
        no_production_names: case.no_production_names,
        ..Default::default()
    };
    (d, opts)
}

/// every permutation of every subset of `names`
fn ordered_subsets(names: &[&str]) -> Vec<Vec<String>> {
    fn rec(names: &[&str], used: &mut Vec<bool>, cur: &mut Vec<String>, out: &mut Vec<Vec<String>>) {
        out.push(cur.clone());
        for i in 0..names.len() {
            if !used[i] {
                used[i] = true;
                cur.push(names[i].to_string());
                rec(names, used, cur, out);
                cur.pop();
                used[i] = false;
            }
        }
    }
    let mut out = vec![];
    rec(names, &mut vec![false; names.len()], &mut vec![], &mut out);
    out
}

/// S1: glyph set × declared order (all exported); `with_export`: additionally every export subset.
fn space_order(tag: &str, names: &[&str], with_export: bool, variable: bool, out: &mut Vec<Case>) {
    let orders = ordered_subsets(names);
    for mask in 1u32..(1 << names.len()) {
        let set: Vec<&str> = (0..names.len())
            .filter(|i| mask & (1 << i) != 0)
            .map(|i| names[i])
            .collect();
        let nexp = if with_export { 1u32 << set.len() } else { 1 };
        for skip in 0..nexp {
            let glyphs: Vec<GSpec> = set
                .iter()
                .enumerate()
                .map(|(i, n)| {
                    let mut g = simple(n);
                    g.export = skip & (1 << i) == 0;
                    g
                })
                .collect();
            for o in std::iter::once(None).chain(orders.iter().cloned().map(Some)) {
                out.push(Case {
                    space: tag.into(),
                    glyphs: glyphs.clone(),
                    order: o,
                    variable,
                    ..Default::default()
                });
            }
        }
    }
}

/// all acyclic edge sets over n labelled nodes with longest path <= max_depth; edge (i,j) = i uses j
fn dags(n: usize, max_depth: usize) -> Vec<Vec<Vec<usize>>> {
    let pairs: Vec<(usize, usize)> = (0..n)
        .flat_map(|i| (0..n).filter(move |j| *j != i).map(move |j| (i, j)))
        .collect();
    let mut out = vec![];
    'm: for mask in 0u32..(1 << pairs.len()) {
        let mut adj = vec![vec![]; n];
        for (k, (i, j)) in pairs.iter().enumerate() {
            if mask & (1 << k) != 0 {
                adj[*i].push(*j);
            }
        }
        // depth by DFS with cycle detection
        fn depth(v: usize, adj: &[Vec<usize>], state: &mut [u8], memo: &mut [usize]) -> Option<usize> {
            match state[v] {
                1 => return None,
                2 => return Some(memo[v]),
                _ => {}
            }
            state[v] = 1;
            let mut d = 0;
            for w in &adj[v] {
                d = d.max(1 + depth(*w, adj, state, memo)?);
            }
            state[v] = 2;
            memo[v] = d;
            Some(d)
        }
        let mut state = vec![0u8; n];
        let mut memo = vec![0usize; n];
        for v in 0..n {
            match depth(v, &adj, &mut state, &mut memo) {
                None => continue 'm,
                Some(d) if d > max_depth => continue 'm,
                _ => {}
            }
        }
        out.push(adj);
    }
    out
}

/// S2: export subsets × component reference patterns (× own contour on composites × prefer-simple)
fn space_components(tag: &str, n: usize, variable: bool, out: &mut Vec<Case>) {
    let names = ["A", "B", "C", "D"];
    for adj in dags(n, 2) {
        for skip in 0u32..(1 << n) {
            for mixed in [false, true] {
                if mixed && adj.iter().all(|a| a.is_empty()) {
                    continue; // no composite: identical to the non-mixed case
                }
                for nps in [false, true] {
                    let mut glyphs = vec![simple(".notdef")];
                    for i in 0..n {
                        glyphs.push(GSpec {
                            name: names[i].into(),
                            export: skip & (1 << i) == 0,
                            cps: default_cp(names[i]),
                            contour: adj[i].is_empty() || mixed,
                            comps: adj[i].iter().map(|j| names[*j].to_string()).collect(),
                        });
                    }
                    out.push(Case {
                        space: tag.into(),
                        glyphs,
                        no_prefer_simple: nps,
                        variable,
                        ..Default::default()
                    });
                }
            }
        }
    }
}

/// S3: codepoints per glyph × export subsets × a few declared orders
fn space_codepoints(tag: &str, n: usize, orders: &[Option<Vec<&str>>], out: &mut Vec<Case>) {
    let names = ["A", "B", "C", "D"];
    let alphabet: [&[u32]; 4] = [&[], &[0x41], &[0x41, 0x391], &[0x1F600]];
    let total = 4usize.pow(n as u32);
    for code in 0..total {
        for skip in 0u32..(1 << n) {
            for o in orders {
                let mut glyphs = vec![simple(".notdef")];
                let mut c = code;
                for i in 0..n {
                    let mut g = simple(names[i]);
                    g.cps = alphabet[c % 4].to_vec();
                    c /= 4;
                    g.export = skip & (1 << i) == 0;
                    glyphs.push(g);
                }
                out.push(Case {
                    space: tag.into(),
                    glyphs,
                    order: o.as_ref().map(|v| v.iter().map(|s| s.to_string()).collect()),
                    ..Default::default()
                });
            }
        }
    }
}

/// S4: public.postscriptNames entries × --no-production-names × a derived glyph × one non-exported glyph
fn space_names(tag: &str, n: usize, out: &mut Vec<Case>) {
    let names = ["A", "B", "C", "E"];
    let nopt = 5usize;
    for code in 0..nopt.pow(n as u32) {
        for nopn in [false, true] {
            for derived in [false, true] {
                for skip in [None, Some(0usize), Some(1usize)] {
                    let mut glyphs = vec![simple(".notdef")];
                    let mut ps = BTreeMap::new();
                    ps.insert("zzz".to_string(), "zzzprod".to_string());
                    let mut c = code;
                    for i in 0..n {
                        let mut g = simple(names[i]);
                        g.export = skip != Some(i);
                        match c % nopt {
                            0 => {}
                            1 => {
                                ps.insert(g.name.clone(), format!("uni{:04X}", g.cps[0]));
                            }
                            2 => {
                                ps.insert(g.name.clone(), "dup".into());
                            }
                            3 => {
                                // the source name of another glyph (identity for B itself)
                                ps.insert(g.name.clone(), "B".into());
                            }
                            _ => {
                                // characters outside [A-Za-z0-9._] are dropped (ufo2ft postProcessor)
                                ps.insert(g.name.clone(), format!("{}-x", g.name));
                            }
                        }
                        c /= nopt;
                        glyphs.push(g);
                    }
                    // D: own contour + component A; derives D.0 when prefer-simple is off
                    let mut dg = simple("D");
                    dg.comps = vec!["A".into()];
                    glyphs.push(dg);
                    out.push(Case {
                        space: tag.into(),
                        glyphs,
                        ps,
                        no_production_names: nopn,
                        no_prefer_simple: derived,
                        order: Some(vec!["D".into(), "C".into(), "B".into(), "A".into()]),
                        ..Default::default()
                    });
                }
            }
        }
    }
}

/// glyph names of the collision space: a name, its numbered forms (what the de-duplication of
/// production names generates), a numbered form of a numbered form, and a second family
const COLLIDE_POOL: [&str; 6] = ["A", "B", "A.1", "A.2", "A.1.1", "B.1"];
/// every glyph of the collision space is encoded (one supplementary codepoint: format 12 subtable)
const COLLIDE_CPS: [u32; 6] = [0x41, 0x42, 0x3B1, 0x3B2, 0x1F600, 0x62];
/// public.postscriptNames entry per glyph: none, a name no glyph has (shared by 2..k glyphs), that
/// name's first generated form, another glyph's own name, another glyph's own numbered name
const COLLIDE_TARGETS: [Option<&str>; 5] = [None, Some("X"), Some("X.1"), Some("A"), Some("A.1")];

/// S4b: collisions of final (production) names. Every glyph set of `sizes` glyphs over COLLIDE_POOL
/// (+ .notdef) x every assignment of COLLIDE_TARGETS x public.glyphOrder absent / every permutation
/// of the set x renaming on / off. All glyphs exported, simple and encoded.
fn space_name_collisions(tag: &str, sizes: std::ops::RangeInclusive<usize>, out: &mut Vec<Case>) {
    let np = COLLIDE_POOL.len();
    let nt = COLLIDE_TARGETS.len();
    for mask in 1u32..(1 << np) {
        let idx: Vec<usize> = (0..np).filter(|i| mask & (1 << i) != 0).collect();
        let k = idx.len();
        if !sizes.contains(&k) {
            continue;
        }
        let set: Vec<&str> = idx.iter().map(|i| COLLIDE_POOL[*i]).collect();
        let mut glyphs = vec![simple(".notdef")];
        for i in &idx {
            let mut g = simple(COLLIDE_POOL[*i]);
            g.cps = vec![COLLIDE_CPS[*i]];
            glyphs.push(g);
        }
        let orders: Vec<Option<Vec<String>>> = std::iter::once(None)
            .chain(ordered_subsets(&set).into_iter().filter(|o| o.len() == k).map(Some))
            .collect();
        for code in 0..nt.pow(k as u32) {
            let mut ps = BTreeMap::new();
            let mut c = code;
            for name in &set {
                if let Some(t) = COLLIDE_TARGETS[c % nt] {
                    ps.insert(name.to_string(), t.to_string());
                }
                c /= nt;
            }
            for o in &orders {
                for nopn in [false, true] {
                    out.push(Case {
                        space: tag.into(),
                        glyphs: glyphs.clone(),
                        ps: ps.clone(),
                        order: o.clone(),
                        no_production_names: nopn,
                        ..Default::default()
                    });
                }
            }
        }
    }
}

/// S5: derived glyphs: A = contour + component B; B simple or contour + component C;
/// glyphs literally named A.0 / A.1 absent, exported or not exported; prefer-simple on/off
fn space_derived(tag: &str, variable: bool, out: &mut Vec<Case>) {
    let orders: [Option<Vec<&str>>; 3] = [None, Some(vec!["C", "B", "A.1", "A", "A.0"]), Some(vec!["A"])];
    for a0 in 0..3 {
        for a1 in 0..2 {
            for bmixed in [false, true] {
                for nps in [false, true] {
                    for skip in 0u32..8 {
                        for o in &orders {
                            let mut glyphs = vec![simple(".notdef")];
                            let mut a = simple("A");
                            a.comps = vec!["B".into()];
                            a.export = skip & 1 == 0;
                            let mut b = simple("B");
                            if bmixed {
                                b.comps = vec!["C".into()];
                            }
                            b.export = skip & 2 == 0;
                            let mut c = simple("C");
                            c.export = skip & 4 == 0;
                            glyphs.extend([a, b, c]);
                            if a0 > 0 {
                                let mut g = simple("A.0");
                                g.export = a0 == 1;
                                glyphs.push(g);
                            }
                            if a1 > 0 {
                                glyphs.push(simple("A.1"));
                            }
                            out.push(Case {
                                space: tag.into(),
                                glyphs,
                                no_prefer_simple: nps,
                                variable,
                                order: o.as_ref().map(|v| v.iter().map(|s| s.to_string()).collect()),
                                ..Default::default()
                            });
                        }
                    }
                }
            }
        }
    }
}

/// S6: layout: export subsets × {no fea, `sub A by B`} × {no kerning, pair, groups} × declared order
/// (absent or any permutation of A..D)
fn space_layout(tag: &str, out: &mut Vec<Case>) {
    let names = ["A", "B", "C", "D"];
    let mut orders: Vec<Option<Vec<String>>> = vec![None];
    orders.extend(ordered_subsets(&names).into_iter().filter(|o| o.len() == 4).map(Some));
    for skip in 0u32..16 {
        for fea in [false, true] {
            for kern in 0..3 {
                for o in &orders {
                    let mut glyphs = vec![simple(".notdef")];
                    for (i, n) in names.iter().enumerate() {
                        let mut g = simple(n);
                        g.export = skip & (1 << i) == 0;
                        glyphs.push(g);
                    }
                    let mut case = Case {
                        space: tag.into(),
                        glyphs,
                        order: o.clone(),
                        fea: fea.then(|| "feature liga {\n  sub A by B;\n} liga;\n".to_string()),
                        ..Default::default()
                    };
                    match kern {
                        1 => case.kern.push(("A".into(), "B".into())),
                        2 => {
                            case.groups
                                .insert("public.kern1.L".into(), vec!["A".into(), "C".into()]);
                            case.groups
                                .insert("public.kern2.R".into(), vec!["B".into(), "D".into()]);
                            case.kern.push(("public.kern1.L".into(), "public.kern2.R".into()));
                        }
                        _ => {}
                    }
                    out.push(case);
                }
            }
        }
    }
}

fn spaces(tier: Tier) -> (Vec<Case>, Vec<Value>) {
    let mut out = vec![];
    let mut notes = vec![];
    let mut mark = |name: &str, what: &str, out: &Vec<Case>, before: usize| {
        notes.push(json!({"space": name, "what": what, "cases": out.len() - before}));
    };
    let n5 = [".notdef", "A", "B", "C", "D"];
    let n6 = [".notdef", "A", "B", "C", "D", "E"];
    let n4 = [".notdef", "A", "B", "C"];
    let alt = [".notdef", "a", "B", "A.alt", "Z"];

    let b = out.len();
    match tier {
        Tier::Quick => space_order("order", &n5, false, false, &mut out),
        Tier::Thorough => space_order("order", &n6, false, false, &mut out),
    }
    mark("order", "every non-empty glyph set over the names x (public.glyphOrder absent | every permutation of every subset of the names); all exported; static", &out, b);

    let b = out.len();
    space_order("order-alt", &alt[..tier.pick(4, 5)], false, false, &mut out);
    mark("order-alt", "the same over names whose byte order differs from case-insensitive / natural order (.notdef a B A.alt Z)", &out, b);

    let b = out.len();
    match tier {
        Tier::Quick => space_order("order-export", &n4, true, false, &mut out),
        Tier::Thorough => space_order("order-export", &n5, true, false, &mut out),
    }
    mark("order-export", "glyph set x every subset of it non-exported (incl. .notdef) x every declared order; static", &out, b);

    let b = out.len();
    space_order("order-var", &n4, tier == Tier::Thorough, true, &mut out);
    if tier == Tier::Thorough {
        space_order("order-var5", &n5, false, true, &mut out);
    }
    mark("order-var", "glyph set x declared order on a 2-master variable designspace (thorough: x export subsets)", &out, b);

    let b = out.len();
    space_components("components", tier.pick(3, 4), false, &mut out);
    if tier == Tier::Quick {
        // quick still covers 4 glyphs, without the own-contour-on-composites variant, prefer-simple on
        let mut tmp = vec![];
        space_components("components4", 4, false, &mut tmp);
        out.extend(tmp.into_iter().filter(|c| {
            !c.no_prefer_simple && c.glyphs.iter().all(|g| !(g.contour && !g.comps.is_empty()))
        }));
    }
    mark("components", "every acyclic component pattern (nesting <= 2) over A..D x every export subset x composites with/without an own contour x prefer-simple on/off", &out, b);

    let b = out.len();
    space_components("components-var", tier.pick(3, 4), true, &mut out);
    mark("components-var", "the component space (3 glyphs quick, 4 thorough) on a 2-master variable designspace", &out, b);

    let b = out.len();
    let orders: Vec<Option<Vec<&str>>> = match tier {
        Tier::Quick => vec![Some(vec!["D", "C", "B", "A"])],
        Tier::Thorough => vec![None, Some(vec!["D", "C", "B", "A"]), Some(vec!["B", "D"])],
    };
    space_codepoints("codepoints", 4, &orders, &mut out);
    mark("codepoints", "codepoints per glyph from {none,{41},{41,391},{1F600}} over A..D x every export subset x declared orders", &out, b);

    let b = out.len();
    space_names("names", tier.pick(3, 4), &mut out);
    mark("names", "public.postscriptNames entry per glyph from {none, uniXXXX, shared 'dup', another glyph's name 'B', name with an illegal '-'} x --no-production-names x derived glyph x one glyph non-exported", &out, b);

    let b = out.len();
    space_name_collisions("names-collide", 1..=tier.pick(3, 4), &mut out);
    mark("names-collide", "collisions of final glyph names: every set of <= 3 (thorough: <= 4) glyphs over {A,B,A.1,A.2,A.1.1,B.1} x public.postscriptNames entry per glyph from {none,'X','X.1','A','A.1'} (2..k glyphs sharing a production name, another glyph's own name, names that look like a generated '.N' suffix) x public.glyphOrder absent / every permutation of the set x renaming on / --no-production-names", &out, b);

    // Glyphs 3 twins (the same designs written by dgen's Glyphs 3 writer; glyphOrder custom parameter)
    let b = out.len();
    {
        let mut tmp = vec![];
        match tier {
            Tier::Quick => space_order("g3-order", &n5, false, false, &mut tmp),
            Tier::Thorough => space_order("g3-order", &n6, false, false, &mut tmp),
        }
        space_order("g3-order-alt", &alt[..tier.pick(4, 5)], false, false, &mut tmp);
        match tier {
            Tier::Quick => space_order("g3-order-export", &n4, true, false, &mut tmp),
            Tier::Thorough => space_order("g3-order-export", &n5, true, false, &mut tmp),
        }
        for mut c in tmp {
            c.glyphs3 = true;
            out.push(c);
        }
    }
    mark("g3-order", "Glyphs 3 twins (.glyphs written by dgen, declared order = glyphOrder custom parameter, export = 0) of the spaces order, order-alt and order-export", &out, b);

    if tier == Tier::Thorough {
        let b = out.len();
        let mut tmp = vec![];
        space_name_collisions("g3-names-collide", 1..=3, &mut tmp);
        for mut c in tmp {
            c.glyphs3 = true;
            // a Glyphs source takes the production name of a glyph whose NAME is unknown to GlyphData from
            // the GlyphData entry of its CODEPOINT (glyphsLib does the same): U+1F600 would rename A.1.1
            // to u1F600. The twins use U+0063, whose entry has no production name.
            for g in c.glyphs.iter_mut() {
                for cp in g.cps.iter_mut() {
                    if *cp == 0x1F600 {
                        *cp = 0x63;
                    }
                }
            }
            out.push(c);
        }
        mark("g3-names-collide", "Glyphs 3 twins of names-collide with <= 3 glyphs (rename map = the glyphs' `production` entries; A.1.1 encoded as U+0063 instead of U+1F600)", &out, b);
    }

    let b = out.len();
    space_derived("derived", false, &mut out);
    space_derived("derived-var", true, &mut out);
    mark("derived", "mixed contour+component glyphs (one or two, nested) x glyphs named A.0/A.1 absent/exported/non-exported x prefer-simple on/off x export subsets x 3 declared orders; static and variable", &out, b);

    let b = out.len();
    space_layout("layout", &mut out);
    mark("layout", "export subsets over A..D x {no fea, sub A by B} x {no kerning, pair A B, group kerning [A C] x [B D]} x declared order absent / every permutation of A..D", &out, b);

    (out, notes)
}

// ------------------------------------------------------------------------------------ reference

type Pt = (i32, i32);

#[derive(Debug, Clone, Default)]
struct Flat {
    contours: Vec<Vec<Pt>>,
    /// (base, dx, dy), all bases exported
    comps: Vec<(String, i32, i32)>,
}

struct Model {
    exported: BTreeSet<String>,
    non_exported: BTreeSet<String>,
    /// `.notdef` + exported glyphs in reference order
    fixed: Vec<String>,
    /// derived glyph names in modelled creation order, with the glyph each derives from
    derived: Vec<(String, String)>,
    notdef_synth: bool,
    notdef_misplaced: bool,
    notdef_nonexport: bool,
    leftovers: usize,
    /// the undeclared exported glyphs are not in byte order in the source file
    file_order_matters: bool,
    declared_used: usize,
    inlined: usize,
    flat: BTreeMap<String, Flat>,
    /// expected cmap, or the codepoint two exported glyphs compete for
    cmap: Result<BTreeMap<u32, String>, u32>,
    /// source supports outline comparison (identity 2x2 only, integer coordinates)
    outlines_ok: bool,
    advances: BTreeMap<String, i32>,
}

fn layer_of<'a>(d: &'a Design, g: &'a Glyph) -> Option<&'a Layer> {
    g.layers.get(&d.default_master)
}

fn flat_of(d: &Design, name: &str, memo: &mut BTreeMap<String, Flat>, depth: usize) -> Flat {
    if let Some(f) = memo.get(name) {
        return f.clone();
    }
    let mut f = Flat::default();
    let Some(g) = d.glyph(name) else { return f };
    let Some(l) = layer_of(d, g) else { return f };
    for c in &l.contours {
        f.contours
            .push(c.points.iter().map(|p| (p.x as i32, p.y as i32)).collect());
    }
    if depth > 16 {
        return f;
    }
    for c in &l.components {
        let (dx, dy) = (c.xform[4] as i32, c.xform[5] as i32);
        match d.glyph(&c.base).filter(|b| layer_of(d, b).is_some()) {
            None => {} // reference to a glyph that does not exist: dropped (fontmake behaviour)
            Some(b) if b.export => f.comps.push((c.base.clone(), dx, dy)),
            Some(_) => {
                let sub = flat_of(d, &c.base, memo, depth + 1);
                for (b, x, y) in sub.comps {
                    f.comps.push((b, x + dx, y + dy));
                }
                for k in sub.contours {
                    f.contours
                        .push(k.into_iter().map(|(x, y)| (x + dx, y + dy)).collect());
                }
            }
        }
    }
    memo.insert(name.to_string(), f.clone());
    f
}

fn model(d: &Design, opts: &fcx::Opts, glyphs3: bool) -> Model {
    let present: Vec<&Glyph> = d.glyphs.iter().filter(|g| layer_of(d, g).is_some()).collect();
    let names: BTreeSet<String> = present.iter().map(|g| g.name.clone()).collect();
    let exported: BTreeSet<String> = present.iter().filter(|g| g.export).map(|g| g.name.clone()).collect();
    let non_exported: BTreeSet<String> = names.difference(&exported).cloned().collect();

    // declared ∩ present (first occurrence), then the rest sorted by name (byte order)
    let mut order: Vec<String> = vec![];
    for n in d.glyph_order.iter().flatten() {
        if names.contains(n) && !order.contains(n) {
            order.push(n.clone());
        }
    }
    let declared_used_all = order.len();
    // UFO: the rest sorted by name (ufo2ft `sorted`); Glyphs: the rest in file order
    let mut rest: Vec<String> = present.iter().map(|g| g.name.clone()).filter(|n| !order.contains(n)).collect();
    let mut rest_sorted = rest.clone();
    rest_sorted.sort_by(|a, b| a.as_bytes().cmp(b.as_bytes()));
    let rest_exported = |v: &[String]| -> Vec<String> {
        v.iter().filter(|n| exported.contains(*n) && n.as_str() != ".notdef").cloned().collect()
    };
    let file_order_matters = rest_exported(&rest) != rest_exported(&rest_sorted);
    if !glyphs3 {
        rest = rest_sorted;
    }
    order.extend(rest);
    let declared_used = order[..declared_used_all]
        .iter()
        .filter(|n| exported.contains(*n) && n.as_str() != ".notdef")
        .count();
    let leftovers = order[declared_used_all..]
        .iter()
        .filter(|n| exported.contains(*n) && n.as_str() != ".notdef")
        .count();
    order.retain(|n| exported.contains(n));

    // shapes after inlining non-exported components
    let mut memo = BTreeMap::new();
    for g in &present {
        flat_of(d, &g.name, &mut memo, 0);
    }
    // non-exported glyphs directly used by exported ones
    let mut inlined = 0usize;
    for g in present.iter().filter(|g| g.export) {
        if let Some(l) = layer_of(d, g) {
            inlined += l
                .components
                .iter()
                .filter(|c| non_exported.contains(&c.base))
                .count();
        }
    }

    // derived glyphs (only when prefer-simple is off): queue in glyph order, a glyph waits while
    // anything it (transitively) uses is still waiting
    let mut derived: Vec<(String, String)> = vec![];
    if opts.no_prefer_simple {
        let mixed = |n: &String| {
            let f = &memo[n];
            !f.contours.is_empty() && !f.comps.is_empty()
        };
        let mut queue: std::collections::VecDeque<String> = order.iter().filter(|n| mixed(n)).cloned().collect();
        let mut pending: BTreeSet<String> = queue.iter().cloned().collect();
        let mut guard = 0;
        while let Some(x) = queue.pop_front() {
            guard += 1;
            if guard > 1000 {
                break;
            }
            let mut stack: Vec<String> = memo[&x].comps.iter().map(|c| c.0.clone()).collect();
            let mut seen = BTreeSet::new();
            let mut blocked = false;
            while let Some(c) = stack.pop() {
                if !seen.insert(c.clone()) {
                    continue;
                }
                if pending.contains(&c) {
                    blocked = true;
                    break;
                }
                if let Some(f) = memo.get(&c) {
                    stack.extend(f.comps.iter().map(|c| c.0.clone()));
                }
            }
            if blocked {
                queue.push_back(x);
                continue;
            }
            let mut i = 0;
            let name = loop {
                let cand = format!("{x}.{i}");
                if !order.contains(&cand) && !derived.iter().any(|(n, _)| *n == cand) {
                    break cand;
                }
                i += 1;
            };
            derived.push((name, x.clone()));
            pending.remove(&x);
        }
    }

    // .notdef
    let pos = order.iter().position(|n| n == ".notdef");
    let notdef_synth = pos.is_none();
    let notdef_misplaced = matches!(pos, Some(p) if p > 0);
    let notdef_nonexport = non_exported.contains(".notdef");
    let mut fixed = vec![".notdef".to_string()];
    fixed.extend(order.into_iter().filter(|n| n != ".notdef"));

    // cmap
    let mut cm: BTreeMap<u32, String> = BTreeMap::new();
    let mut conflict = None;
    for g in present.iter().filter(|g| g.export) {
        for cp in &g.codepoints {
            match cm.get(cp) {
                Some(other) if *other != g.name => conflict = conflict.or(Some(*cp)),
                _ => {
                    cm.insert(*cp, g.name.clone());
                }
            }
        }
    }

    let mut outlines_ok = true;
    let mut advances = BTreeMap::new();
    for g in &present {
        let l = layer_of(d, g).unwrap();
        advances.insert(g.name.clone(), l.advance as i32);
        for c in &l.components {
            if c.xform[..4] != [1.0, 0.0, 0.0, 1.0] || c.xform[4].fract() != 0.0 || c.xform[5].fract() != 0.0 {
                outlines_ok = false;
            }
        }
        for c in &l.contours {
            if c.points.iter().any(|p| p.kind != dgen::PtKind::Line || p.x.fract() != 0.0 || p.y.fract() != 0.0) {
                outlines_ok = false;
            }
        }
    }

    Model {
        exported,
        non_exported,
        fixed,
        derived,
        notdef_synth,
        notdef_misplaced,
        notdef_nonexport,
        leftovers,
        file_order_matters,
        declared_used,
        inlined,
        flat: memo,
        cmap: match conflict {
            Some(cp) => Err(cp),
            None => Ok(cm),
        },
        outlines_ok,
        advances,
    }
}

/// all points of the fully resolved outline of `name` (contour count, sorted points)
fn resolved(m: &Model, name: &str, depth: usize) -> (usize, Vec<Pt>) {
    let mut pts = vec![];
    let mut nc = 0;
    if let Some(f) = m.flat.get(name) {
        for c in &f.contours {
            nc += 1;
            pts.extend(c.iter().cloned());
        }
        if depth < 16 {
            for (b, dx, dy) in &f.comps {
                let (n, p) = resolved(m, b, depth + 1);
                nc += n;
                pts.extend(p.into_iter().map(|(x, y)| (x + dx, y + dy)));
            }
        }
    }
    pts.sort();
    (nc, pts)
}

/// ufo2ft postProcessor naming: rename through the map, drop characters outside [A-Za-z0-9._],
/// make duplicates unique with `.N` (`_unique_name`)
fn production_names(order: &[String], map: &BTreeMap<String, String>) -> Vec<String> {
    production_names_counting(order, map).0
}

/// the same, plus how often a generated `.N` had to skip a name that was already taken
fn production_names_counting(order: &[String], map: &BTreeMap<String, String>) -> (Vec<String>, u32) {
    let mut seen: BTreeMap<String, u32> = BTreeMap::new();
    let mut out = vec![];
    let mut skips = 0;
    for g in order {
        let mut name: String = legal_name(map.get(g).unwrap_or(g));
        if let Some(n0) = seen.get(&name).copied() {
            let mut n = n0;
            while seen.contains_key(&format!("{name}.{n}")) {
                n += 1;
                skips += 1;
            }
            seen.insert(name.clone(), n + 1);
            name = format!("{name}.{n}");
        }
        seen.insert(name.clone(), 1);
        out.push(name);
    }
    (out, skips)
}

/// characters outside [A-Za-z0-9._] are dropped (AGL; ufo2ft postProcessor)
fn legal_name(s: &str) -> String {
    s.chars().filter(|c| c.is_ascii_alphanumeric() || *c == '.' || *c == '_').collect()
}

/// is `s` = `root` followed by one or more `.<digits>` segments (what de-duplication can generate from `root`)?
fn numbered_form_of(s: &str, root: &str) -> bool {
    let Some(rest) = s.strip_prefix(root) else { return false };
    let mut it = rest.split('.');
    if rest.is_empty() || it.next() != Some("") {
        return false;
    }
    let mut n = 0;
    for seg in it {
        if seg.is_empty() || !seg.bytes().all(|b| b.is_ascii_digit()) {
            return false;
        }
        n += 1;
    }
    n > 0
}

/// What the property (+ the documented ufo2ft rule "duplicates get a .N suffix, in glyph order") fixes
/// about final names when several glyphs resolve to one name.
///
/// `plain[i]` = production name of glyph i before de-duplication. R = names that >= 2 glyphs resolve to.
/// A glyph is *involved* when its plain name is in R or is a numbered form `r(.N)+` of some r in R
/// (only such names can be generated, directly or by displacing a literal). Then:
///   (1) all final names are pairwise distinct;
///   (2) a glyph that is not involved keeps exactly its plain name;
///   (3) the first glyph (in glyph order) of a name r in R keeps r, unless r is itself a numbered form
///       of another name in R (it may have been handed out before that glyph is reached);
///   (4) every involved glyph's final name is its plain name or a numbered form of it.
/// Which N each duplicate gets is NOT asserted.
struct Clash {
    plain: Vec<String>,
    involved: Vec<bool>,
    first_keeps: Vec<bool>,
    max_multiplicity: usize,
    numbered_literal_involved: bool,
}

fn clash_of(order: &[String], map: &BTreeMap<String, String>) -> Clash {
    let plain: Vec<String> = order.iter().map(|g| legal_name(map.get(g).unwrap_or(g))).collect();
    let mut mult: BTreeMap<&String, usize> = BTreeMap::new();
    for p in &plain {
        *mult.entry(p).or_default() += 1;
    }
    let roots: Vec<&String> = mult.iter().filter(|(_, n)| **n >= 2).map(|(p, _)| *p).collect();
    let shadowed = |p: &String| roots.iter().any(|r| numbered_form_of(p, r));
    let involved: Vec<bool> = plain.iter().map(|p| roots.contains(&p) || shadowed(p)).collect();
    let first_keeps: Vec<bool> = plain
        .iter()
        .enumerate()
        .map(|(i, p)| roots.contains(&p) && !shadowed(p) && plain[..i].iter().all(|q| q != p))
        .collect();
    let numbered_literal_involved = plain.iter().any(|p| shadowed(p));
    let max_multiplicity = mult.values().copied().max().unwrap_or(0);
    Clash { plain, involved, first_keeps, max_multiplicity, numbered_literal_involved }
}

impl Clash {
    fn any(&self) -> bool {
        self.involved.iter().any(|x| *x)
    }
    /// Err((key suffix, what)) for the first of (1)..(4) that `names` breaks
    fn check(&self, names: &[String]) -> Result<(), (&'static str, String)> {
        if names.len() != self.plain.len() {
            return Err(("count", format!("{} names for {} glyphs", names.len(), self.plain.len())));
        }
        let uniq: BTreeSet<&String> = names.iter().collect();
        if uniq.len() != names.len() {
            return Err(("duplicate", "two glyph ids share one name".into()));
        }
        for (i, n) in names.iter().enumerate() {
            if !self.involved[i] && *n != self.plain[i] {
                return Err((
                    "non-colliding-glyph-renamed",
                    format!("glyph {i} resolves to '{}', which no other glyph resolves to and de-duplication cannot generate, but is named '{n}'", self.plain[i]),
                ));
            }
        }
        for (i, n) in names.iter().enumerate() {
            if self.first_keeps[i] && *n != self.plain[i] {
                return Err((
                    "first-occurrence-renamed",
                    format!("glyph {i} is the first in glyph order to resolve to '{}' but is named '{n}'", self.plain[i]),
                ));
            }
        }
        for (i, n) in names.iter().enumerate() {
            if self.involved[i] && *n != self.plain[i] && !numbered_form_of(n, &self.plain[i]) {
                return Err((
                    "duplicate-not-suffixed",
                    format!("glyph {i} resolves to '{}' but is named '{n}', which is not that name plus '.N'", self.plain[i]),
                ));
            }
        }
        Ok(())
    }
}

// ------------------------------------------------------------------------------------ font reading

fn be16(b: &[u8], o: usize) -> Option<u32> {
    Some(u16::from_be_bytes([*b.get(o)?, *b.get(o + 1)?]) as u32)
}
fn be32(b: &[u8], o: usize) -> Option<u32> {
    Some(u32::from_be_bytes([*b.get(o)?, *b.get(o + 1)?, *b.get(o + 2)?, *b.get(o + 3)?]))
}

fn raw_table<'a>(font: &'a [u8], tag: &[u8; 4]) -> Option<&'a [u8]> {
    let n = be16(font, 4)? as usize;
    for i in 0..n {
        let r = 12 + 16 * i;
        if font.get(r..r + 4)? == tag {
            let off = be32(font, r + 8)? as usize;
            let len = be32(font, r + 12)? as usize;
            return font.get(off..off + len);
        }
    }
    None
}

struct Subtable {
    platform: u32,
    encoding: u32,
    format: u32,
    map: BTreeMap<u32, u32>,
}

/// own decoder of cmap formats 4 and 12 (OpenType spec), every encoding record
fn decode_cmap(t: &[u8]) -> Result<Vec<Subtable>, String> {
    let bad = || "truncated cmap".to_string();
    let n = be16(t, 2).ok_or_else(bad)? as usize;
    let mut out = vec![];
    for i in 0..n {
        let r = 4 + 8 * i;
        let platform = be16(t, r).ok_or_else(bad)?;
        let encoding = be16(t, r + 2).ok_or_else(bad)?;
        let off = be32(t, r + 4).ok_or_else(bad)? as usize;
        let format = be16(t, off).ok_or_else(bad)?;
        let mut map = BTreeMap::new();
        match format {
            4 => {
                let segx2 = be16(t, off + 6).ok_or_else(bad)? as usize;
                let seg = segx2 / 2;
                let end0 = off + 14;
                let start0 = end0 + segx2 + 2;
                let delta0 = start0 + segx2;
                let ro0 = delta0 + segx2;
                for s in 0..seg {
                    let end = be16(t, end0 + 2 * s).ok_or_else(bad)?;
                    let start = be16(t, start0 + 2 * s).ok_or_else(bad)?;
                    let delta = be16(t, delta0 + 2 * s).ok_or_else(bad)?;
                    let ro = be16(t, ro0 + 2 * s).ok_or_else(bad)? as usize;
                    if start > end {
                        return Err(format!("format 4 segment {s} start {start:#x} > end {end:#x}"));
                    }
                    for c in start..=end {
                        let gid = if ro == 0 {
                            (c + delta) & 0xFFFF
                        } else {
                            let addr = ro0 + 2 * s + ro + 2 * (c - start) as usize;
                            let g = be16(t, addr).ok_or_else(bad)?;
                            if g == 0 { 0 } else { (g + delta) & 0xFFFF }
                        };
                        if gid != 0 {
                            if map.insert(c, gid).is_some() {
                                return Err(format!("format 4 maps U+{c:04X} twice"));
                            }
                        }
                    }
                }
            }
            12 => {
                let ng = be32(t, off + 12).ok_or_else(bad)? as usize;
                for g in 0..ng {
                    let o = off + 16 + 12 * g;
                    let start = be32(t, o).ok_or_else(bad)?;
                    let end = be32(t, o + 4).ok_or_else(bad)?;
                    let gid0 = be32(t, o + 8).ok_or_else(bad)?;
                    if start > end || end - start > 0x11_0000 {
                        return Err(format!("format 12 group {g} [{start:#x},{end:#x}]"));
                    }
                    for c in start..=end {
                        if map.insert(c, gid0 + (c - start)).is_some() {
                            return Err(format!("format 12 maps U+{c:04X} twice"));
                        }
                    }
                }
            }
            f => return Err(format!("cmap subtable format {f} is not modelled")),
        }
        out.push(Subtable { platform, encoding, format, map });
    }
    Ok(out)
}

/// resolved outline of a glyph of the font: (contours, sorted points); Err = malformed reference
fn font_resolved(font: &FontRef, gid: u32, n: u32, depth: usize) -> Result<(usize, Vec<Pt>, Vec<u32>), String> {
    if gid >= n {
        return Err(format!("component glyph id {gid} >= numGlyphs {n}"));
    }
    if depth > 8 {
        return Err("component nesting deeper than 8".into());
    }
    let loca = font.loca(None).map_err(|e| format!("loca: {e}"))?;
    let glyf = font.glyf().map_err(|e| format!("glyf: {e}"))?;
    let g = loca
        .get_glyf(GlyphId::new(gid), &glyf)
        .map_err(|e| format!("glyph {gid}: {e}"))?;
    match g {
        None => Ok((0, vec![], vec![])),
        Some(RGlyph::Simple(s)) => {
            let mut pts: Vec<Pt> = s.points().map(|p| (p.x as i32, p.y as i32)).collect();
            pts.sort();
            Ok((s.end_pts_of_contours().len(), pts, vec![]))
        }
        Some(RGlyph::Composite(c)) => {
            let mut nc = 0;
            let mut pts = vec![];
            let mut direct = vec![];
            for comp in c.components() {
                let Anchor::Offset { x, y } = comp.anchor else {
                    return Err(format!("glyph {gid}: point-anchored component"));
                };
                let t = comp.transform;
                if (t.xx.to_f32(), t.yx.to_f32(), t.xy.to_f32(), t.yy.to_f32()) != (1.0, 0.0, 0.0, 1.0) {
                    return Err(format!("glyph {gid}: component with a 2x2 transform (source has none)"));
                }
                let cg = comp.glyph.to_u32();
                direct.push(cg);
                let (k, p, _) = font_resolved(font, cg, n, depth + 1)?;
                nc += k;
                pts.extend(p.into_iter().map(|(px, py)| (px + x as i32, py + y as i32)));
            }
            pts.sort();
            Ok((nc, pts, direct))
        }
    }
}

fn gsub_single_map(font: &FontRef) -> Result<(BTreeSet<(u32, u32)>, usize), String> {
    let mut out = BTreeSet::new();
    let mut other = 0;
    let Ok(gsub) = font.gsub() else { return Ok((out, 0)) };
    let list = gsub.lookup_list().map_err(|e| e.to_string())?;
    let mut take = |s: SingleSubst| -> Result<(), String> {
        match s {
            SingleSubst::Format1(t) => {
                let d = t.delta_glyph_id() as i32;
                for g in t.coverage().map_err(|e| e.to_string())?.iter() {
                    out.insert((g.to_u32(), ((g.to_u32() as i32 + d) & 0xFFFF) as u32));
                }
            }
            SingleSubst::Format2(t) => {
                let subs = t.substitute_glyph_ids();
                for (i, g) in t.coverage().map_err(|e| e.to_string())?.iter().enumerate() {
                    let s = subs.get(i).ok_or("substitute array shorter than coverage")?;
                    out.insert((g.to_u32(), s.get().to_u32()));
                }
            }
        }
        Ok(())
    };
    for l in list.lookups().iter() {
        match l.map_err(|e| e.to_string())? {
            SubstitutionLookup::Single(l) => {
                for s in l.subtables().iter() {
                    take(s.map_err(|e| e.to_string())?)?;
                }
            }
            SubstitutionLookup::Extension(l) => {
                for s in l.subtables().iter() {
                    match s.map_err(|e| e.to_string())? {
                        SubExt::Single(e) => take(e.extension().map_err(|e| e.to_string())?)?,
                        _ => other += 1,
                    }
                }
            }
            _ => other += 1,
        }
    }
    Ok((out, other))
}

/// every (first, second) → xAdvance adjustment of every PairPos lookup, evaluated glyph pair by pair
fn gpos_pairs(font: &FontRef, n: u32) -> Result<(BTreeMap<(u32, u32), i32>, usize), String> {
    let mut out = BTreeMap::new();
    let mut other = 0;
    let Ok(gpos) = font.gpos() else { return Ok((out, 0)) };
    let list = gpos.lookup_list().map_err(|e| e.to_string())?;
    for l in list.lookups().iter() {
        let mut subs: Vec<PairPos> = vec![];
        match l.map_err(|e| e.to_string())? {
            PositionLookup::Pair(l) => {
                for s in l.subtables().iter() {
                    subs.push(s.map_err(|e| e.to_string())?);
                }
            }
            PositionLookup::Extension(l) => {
                for s in l.subtables().iter() {
                    match s.map_err(|e| e.to_string())? {
                        PosExt::Pair(e) => subs.push(e.extension().map_err(|e| e.to_string())?),
                        _ => other += 1,
                    }
                }
            }
            _ => other += 1,
        }
        if subs.is_empty() {
            continue;
        }
        for g1 in 0..n {
            for g2 in 0..n {
                // the first subtable that covers the pair applies
                for s in &subs {
                    let hit = match s {
                        PairPos::Format1(t) => {
                            let cov = t.coverage().map_err(|e| e.to_string())?;
                            for c in cov.iter() {
                                if c.to_u32() >= n {
                                    return Err(format!("GPOS coverage glyph {} >= numGlyphs", c.to_u32()));
                                }
                            }
                            match cov.get(GlyphId16::new(g1 as u16)) {
                                None => None,
                                Some(ci) => {
                                    let set = t.pair_sets().get(ci as usize).map_err(|e| e.to_string())?;
                                    let mut v = None;
                                    for r in set.pair_value_records().iter() {
                                        let r = r.map_err(|e| e.to_string())?;
                                        if r.second_glyph().to_u32() >= n {
                                            return Err(format!("GPOS second glyph {} >= numGlyphs", r.second_glyph().to_u32()));
                                        }
                                        if r.second_glyph().to_u32() == g2 {
                                            v = Some(r.value_record1().x_advance().unwrap_or(0) as i32);
                                        }
                                    }
                                    v
                                }
                            }
                        }
                        PairPos::Format2(t) => {
                            let cov = t.coverage().map_err(|e| e.to_string())?;
                            for c in cov.iter() {
                                if c.to_u32() >= n {
                                    return Err(format!("GPOS coverage glyph {} >= numGlyphs", c.to_u32()));
                                }
                            }
                            let cd1 = t.class_def1().map_err(|e| e.to_string())?;
                            let cd2 = t.class_def2().map_err(|e| e.to_string())?;
                            for (g, _) in cd1.iter().chain(cd2.iter()) {
                                if g.to_u32() >= n {
                                    return Err(format!("GPOS class glyph {} >= numGlyphs", g.to_u32()));
                                }
                            }
                            match cov.get(GlyphId16::new(g1 as u16)) {
                                None => None,
                                Some(_) => {
                                    let c1 = cd1.get(GlyphId16::new(g1 as u16)) as usize;
                                    let c2 = cd2.get(GlyphId16::new(g2 as u16)) as usize;
                                    let r1 = t.class1_records().get(c1).map_err(|e| e.to_string())?;
                                    let r2 = r1.class2_records().get(c2).map_err(|e| e.to_string())?;
                                    Some(r2.value_record1().x_advance().unwrap_or(0) as i32)
                                }
                            }
                        }
                    };
                    if let Some(v) = hit {
                        if v != 0 {
                            out.insert((g1, g2), v);
                        }
                        break;
                    }
                }
            }
        }
    }
    Ok((out, other))
}

// ------------------------------------------------------------------------------------ judging

/// key of a glyph-order violation: the part of the reference order in which the first wrong id lies
fn order_key(first_bad: usize, m: &Model) -> String {
    let part = if first_bad <= m.declared_used {
        "declared"
    } else if first_bad < m.fixed.len() {
        "leftovers"
    } else {
        "derived"
    };
    format!(
        "glyph-order:{part}{}",
        if m.notdef_misplaced { ":notdef-misplaced" } else if m.notdef_synth { ":notdef-synthesised" } else { "" }
    )
}

/// The source glyph each glyph id carries, read off hmtx; None when the advances are not exactly the
/// source's (then nothing is concluded here and the ordinary checks speak).
fn order_by_advance(bytes: &[u8], expected: &[String], m: &Model) -> Option<Vec<String>> {
    let hhea = raw_table(bytes, b"hhea")?;
    let hmtx = raw_table(bytes, b"hmtx")?;
    let n = expected.len() as u32;
    let nhm = be16(hhea, 34)?;
    if nhm == 0 || nhm > n || hmtx.len() as u32 != 4 * nhm + 2 * (n - nhm) {
        return None;
    }
    let mut by_adv: BTreeMap<i32, &String> = BTreeMap::new();
    for name in expected {
        if name == ".notdef" && m.notdef_synth {
            continue;
        }
        if by_adv.insert(*m.advances.get(name)?, name).is_some() {
            return None;
        }
    }
    let mut out = vec![];
    let mut unmatched = 0;
    for gid in 0..n {
        let a = be16(hmtx, 4 * gid.min(nhm - 1) as usize)? as i32;
        match by_adv.get(&a) {
            Some(nm) => out.push((*nm).clone()),
            None => {
                unmatched += 1;
                out.push(".notdef".to_string());
            }
        }
    }
    let (mut x, mut y) = (out.clone(), expected.to_vec());
    x.sort();
    y.sort();
    (unmatched == m.notdef_synth as usize && x == y).then_some(out)
}

#[derive(Default, Debug, Clone, Serialize, Deserialize)]
struct Stats {
    evaluations: u64,
    compiled: u64,
    expected_cmap_conflict_errors: u64,
    fea_on_missing_glyph_errors: u64,
    fea_on_missing_glyph_compiled: u64,
    notdef_misplaced: u64,
    notdef_synthesised: u64,
    notdef_non_exported: u64,
    /// counted before compiling (the other counters are over compiled cases)
    cases_with_non_exported_notdef: u64,
    cases_with_derived_name_of_non_exported_glyph: u64,
    leftovers_ge3: u64,
    declared_reorders: u64,
    with_non_exported: u64,
    inlined_non_export_components: u64,
    renamed: u64,
    deduplicated_production_names: u64,
    dedup_three_or_more_share_a_name: u64,
    dedup_numbered_name_involved: u64,
    dedup_taken_suffix_skipped: u64,
    dedup_first_occurrences_checked: u64,
    dedup_bystanders_checked: u64,
    dedup_numbering_differs_from_ufo2ft: u64,
    production_name_is_another_glyphs_name: u64,
    renaming_off_with_map: u64,
    glyphs3_cases: u64,
    glyphs3_compiled: u64,
    glyphs3_undeclared_not_in_byte_order: u64,
    derived_glyph: u64,
    derived_two: u64,
    derived_order_differs_from_model: u64,
    derived_name_skips_taken: u64,
    supplementary_cmap: u64,
    multi_codepoint_glyph: u64,
    cmap_mappings_checked: u64,
    cmap_subtables_checked: u64,
    outlines_compared: u64,
    composites_in_font: u64,
    advances_compared: u64,
    variable: u64,
    gsub_rules_checked: u64,
    gpos_pairs_checked: u64,
    kerning_dropped_for_non_export: u64,
    only_notdef: u64,
    nontrivial: u64,
}

fn add_stats(a: &mut Stats, b: &Stats) {
    let mut va = serde_json::to_value(&*a).unwrap();
    let vb = serde_json::to_value(b).unwrap();
    vcore::merge_counts(&mut va, &vb);
    *a = serde_json::from_value(va).unwrap();
}

struct Verdict {
    stats: Stats,
    /// (key, what)
    viol: Vec<(String, String)>,
    nontrivial: bool,
    summary: Value,
}

fn msg_class(m: &str) -> String {
    let s: String = m
        .chars()
        .map(|c| if c.is_ascii_digit() { '#' } else { c })
        .filter(|c| !c.is_control())
        .collect();
    let s = s.split("/dev/shm").next().unwrap_or("").trim().to_string();
    s.chars().take(70).collect()
}

fn judge(d: &Design, opts: &fcx::Opts, variable: bool, glyphs3: bool, result: &Result<Vec<u8>, fcx::Failure>) -> Verdict {
    let m = model(d, opts, glyphs3);
    let mut st = Stats { evaluations: 1, ..Default::default() };
    st.glyphs3_cases = glyphs3 as u64;
    st.cases_with_non_exported_notdef = m.notdef_nonexport as u64;
    st.cases_with_derived_name_of_non_exported_glyph = m.derived.iter().any(|(n, _)| m.non_exported.contains(n)) as u64;
    let mut viol: Vec<(String, String)> = vec![];
    let fea_glyphs_missing = d.features_fea.is_some() && !(m.exported.contains("A") && m.exported.contains("B"));

    let mut expected: Vec<String> = m.fixed.clone();
    expected.extend(m.derived.iter().map(|(n, _)| n.clone()));
    let summary = json!({
        "glyphs": d.glyphs.iter().map(|g| format!("{}{}{}", g.name, if g.export {""} else {"(skip)"},
            if g.codepoints.is_empty() { String::new() } else { format!("{:X?}", g.codepoints) })).collect::<Vec<_>>(),
        "public.glyphOrder": d.glyph_order,
        "public.postscriptNames": d.postscript_names,
        "format": if glyphs3 { "glyphs3" } else if variable { "designspace" } else { "ufo" },
        "opts": opts.name(),
        "expected_order": expected,
    });

    let bytes = match result {
        Err(fcx::Failure::Panic(p)) => {
            viol.push((format!("compile-panic:{}", msg_class(p)), format!("the compiler panicked: {p}")));
            return Verdict { stats: st, viol, nontrivial: false, summary };
        }
        Err(fcx::Failure::Error(e)) => {
            if m.cmap.is_err() && e.contains("map") {
                st.expected_cmap_conflict_errors += 1;
            } else if fea_glyphs_missing {
                st.fea_on_missing_glyph_errors += 1;
            } else {
                // key on the minimal source feature that makes the build fail, when the model knows one
                let collide = m.derived.iter().find(|(n, _)| m.non_exported.contains(n));
                let key = if m.notdef_nonexport {
                    "compile-error:non-exported-notdef".to_string()
                } else if collide.is_some() {
                    "compile-error:derived-name-equals-non-exported-glyph".to_string()
                } else {
                    format!("compile-error:{}", msg_class(e))
                };
                viol.push((key, format!("the compiler rejected a source the property covers: {e}")));
            }
            return Verdict { stats: st, viol, nontrivial: false, summary };
        }
        Ok(b) => b,
    };
    st.compiled = 1;
    st.glyphs3_compiled = glyphs3 as u64;
    st.glyphs3_undeclared_not_in_byte_order = (glyphs3 && m.file_order_matters) as u64;
    if fea_glyphs_missing {
        st.fea_on_missing_glyph_compiled = 1;
    }
    if let Err(cp) = &m.cmap {
        viol.push((
            "cmap:conflicting-codepoint-accepted".into(),
            format!("two exported glyphs both claim U+{cp:04X}, the font was built anyway (ufo2ft and Cmap::from_mappings reject this)"),
        ));
        return Verdict { stats: st, viol, nontrivial: false, summary };
    }

    // ---- non-vacuity bookkeeping
    let n_exp = expected.len() as u32;
    st.notdef_misplaced = m.notdef_misplaced as u64;
    st.notdef_synthesised = m.notdef_synth as u64;
    st.notdef_non_exported = m.notdef_nonexport as u64;
    st.leftovers_ge3 = (m.leftovers >= 3) as u64;
    st.with_non_exported = (!m.non_exported.is_empty()) as u64;
    st.inlined_non_export_components = (m.inlined > 0) as u64;
    st.derived_glyph = (!m.derived.is_empty()) as u64;
    st.derived_two = (m.derived.len() >= 2) as u64;
    st.derived_name_skips_taken = m.derived.iter().any(|(n, x)| *n != format!("{x}.0")) as u64;
    st.variable = variable as u64;
    st.only_notdef = (expected.len() == 1) as u64;
    let mut sorted_names: Vec<String> = m.fixed[1..].to_vec();
    sorted_names.sort_by(|a, b| a.as_bytes().cmp(b.as_bytes()));
    st.declared_reorders = (m.declared_used >= 2 && sorted_names != m.fixed[1..]) as u64;

    let font = match FontRef::new(bytes) {
        Ok(f) => f,
        Err(e) => {
            viol.push(("font-unreadable".into(), format!("FontRef::new: {e}")));
            return Verdict { stats: st, viol, nontrivial: false, summary };
        }
    };

    // ---- glyph count
    let n = raw_table(bytes, b"maxp").and_then(|t| be16(t, 4)).unwrap_or(0);
    if n != n_exp {
        viol.push((
            format!("glyph-count:{}", if n > n_exp { "extra" } else { "missing" }),
            format!("maxp.numGlyphs = {n}, the source yields {n_exp} glyphs {expected:?}"),
        ));
    }

    // ---- post names
    // a Glyphs source always carries a (possibly empty) rename map; a UFO only with public.postscriptNames
    let use_prod = !opts.no_production_names && (glyphs3 || !d.postscript_names.is_empty());
    st.renaming_off_with_map = (opts.no_production_names && !d.postscript_names.is_empty()) as u64;
    let mut names: Vec<String> = vec![];
    let mut post_ok = false;
    match font.post() {
        Err(e) => viol.push(("post:unreadable".into(), format!("{e}"))),
        Ok(post) => {
            if post.version().to_major_minor() != (2, 0) {
                viol.push(("post:not-v2".into(), format!("post version {:?}", post.version())));
            } else if post.num_glyphs().map(|x| x as u32) != Some(n) {
                viol.push((
                    "post:count".into(),
                    format!("post.numGlyphs {:?} != maxp.numGlyphs {n}", post.num_glyphs()),
                ));
            } else {
                post_ok = true;
                for i in 0..n {
                    match post.glyph_name(GlyphId16::new(i as u16)) {
                        Some(s) => names.push(s.to_string()),
                        None => {
                            post_ok = false;
                            viol.push(("post:name-missing".into(), format!("glyph {i} has no name in post")));
                            break;
                        }
                    }
                }
            }
        }
    }
    // actual[gid] = source-level glyph name the font assigns to that id
    let mut actual: Vec<String> = expected.clone();
    if post_ok && use_prod && n == n_exp {
        // renamed post names do not say which source glyph sits at which id; the advance widths do
        // (every source glyph of the enumerated designs has its own). A font whose glyphs are the
        // source's in another order is ONE defect (glyph order), reported under one key.
        if let Some(perm) = order_by_advance(bytes, &expected, &m) {
            if let Some(first_bad) = perm.iter().zip(&expected).position(|(x, y)| x != y) {
                viol.push((
                    order_key(first_bad, &m),
                    format!("the glyphs (identified by their advance widths) are in the order {perm:?}, the source determines {expected:?}; post names {names:?}"),
                ));
                return Verdict { stats: st, viol, nontrivial: false, summary };
            }
        }
    }
    if post_ok {
        let uniq: BTreeSet<&String> = names.iter().collect();
        if uniq.len() != names.len() {
            viol.push((
                "post:duplicate-name".into(),
                format!("post names are not one-to-one (two glyph ids share a name): {names:?}; glyph order {expected:?}, rename map {:?}", d.postscript_names),
            ));
            // one defect, one key: nothing else can be read off names that are not one-to-one
            return Verdict { stats: st, viol, nontrivial: false, summary };
        }
        let forward = |order: &[String]| -> Vec<String> {
            if use_prod { production_names(order, &d.postscript_names) } else { order.to_vec() }
        };
        let exp_names = forward(&expected);
        // several glyphs resolving to one final name: only what the property fixes is asserted
        let clash = use_prod.then(|| clash_of(&expected, &d.postscript_names)).filter(|c| c.any());
        if use_prod {
            st.renamed = (exp_names != expected) as u64;
            st.production_name_is_another_glyphs_name = expected
                .iter()
                .any(|g| d.postscript_names.get(g).is_some_and(|t| t != g && expected.contains(&legal_name(t)))) as u64;
        }
        if let Some(c) = &clash {
            st.deduplicated_production_names = 1;
            st.dedup_three_or_more_share_a_name = (c.max_multiplicity >= 3) as u64;
            st.dedup_numbered_name_involved = c.numbered_literal_involved as u64;
            st.dedup_taken_suffix_skipped = (production_names_counting(&expected, &d.postscript_names).1 > 0) as u64;
            st.dedup_first_occurrences_checked = c.first_keeps.iter().filter(|x| **x).count() as u64;
            st.dedup_bystanders_checked = c.involved.iter().filter(|x| !**x).count() as u64;
        }
        let weak = clash.as_ref().map(|c| c.check(&names));
        if names != exp_names && n == n_exp && matches!(weak, Some(Ok(()))) {
            // distinct, bystanders and first occurrences untouched, duplicates suffixed: only the
            // numbers differ from ufo2ft's _unique_name, which the property does not fix
            st.dedup_numbering_differs_from_ufo2ft = 1;
        } else if names != exp_names && n == n_exp {
            // is it only the order among the derived glyphs (which the property does not fix)?
            let k = m.fixed.len();
            let mut alt_ok = false;
            if m.derived.len() >= 2 && names[..k] == exp_names[..k] {
                let mut perm: Vec<String> = m.derived.iter().map(|(n, _)| n.clone()).collect();
                perm.reverse();
                let mut alt = m.fixed.clone();
                alt.extend(perm);
                if forward(&alt) == names {
                    alt_ok = true;
                    actual = alt;
                    st.derived_order_differs_from_model = 1;
                }
            }
            if !alt_ok {
                let (a, b): (BTreeSet<&String>, BTreeSet<&String>) = (names.iter().collect(), exp_names.iter().collect());
                let key = if names.first().map(|s| s.as_str()) != Some(".notdef") {
                    "glyph-order:notdef-not-gid0".to_string()
                } else if a == b {
                    // same names, different order: name the part of the reference that is off
                    let first_bad = names.iter().zip(&exp_names).position(|(x, y)| x != y).unwrap_or(0);
                    order_key(first_bad, &m)
                } else if b.iter().any(|x| !a.contains(*x)) && a.iter().any(|x| m.non_exported.contains(*x) && !b.contains(*x)) {
                    "post:non-exported-name-present".to_string()
                } else if let Some(Err((k, _))) = &weak {
                    format!("post:production-name:{k}")
                } else if use_prod {
                    "post:production-name".to_string()
                } else {
                    "post:name-set".to_string()
                };
                let why = match &weak {
                    Some(Err((_, w))) => format!(" ({w}; rename map {:?})", d.postscript_names),
                    _ => String::new(),
                };
                viol.push((key, format!("post glyph names {names:?}, the source determines {exp_names:?}{why}")));
                // one defect, one key: the remaining tables are checked against the order the font
                // really has when that can be read off the names, otherwise not at all
                if !use_prod && a == b && uniq.len() == names.len() {
                    actual = names.clone();
                } else {
                    return Verdict { stats: st, viol, nontrivial: false, summary };
                }
            }
        }
        for nm in &names {
            let is_derived = m.derived.iter().any(|(d, _)| d == nm);
            if !use_prod && m.non_exported.contains(nm) && nm != ".notdef" && !is_derived {
                viol.push((
                    "post:non-exported-name-present".into(),
                    format!("post contains the non-exported glyph '{nm}': {names:?}"),
                ));
            }
        }
    }
    if n != n_exp || !post_ok {
        return Verdict { stats: st, viol, nontrivial: false, summary };
    }
    let gid_of = |name: &str| actual.iter().position(|x| x == name).map(|p| p as u32);

    // ---- cmap
    let exp_cmap: BTreeMap<u32, u32> = m
        .cmap
        .as_ref()
        .unwrap()
        .iter()
        .filter_map(|(cp, g)| gid_of(g).map(|gid| (*cp, gid)))
        .collect();
    st.supplementary_cmap = exp_cmap.keys().any(|c| *c > 0xFFFF) as u64;
    st.multi_codepoint_glyph = d.glyphs.iter().any(|g| g.export && g.codepoints.len() > 1) as u64;
    match raw_table(bytes, b"cmap") {
        None => viol.push(("cmap:absent".into(), "no cmap table".into())),
        Some(t) => match decode_cmap(t) {
            Err(e) => viol.push((format!("cmap:malformed:{}", msg_class(&e)), e)),
            Ok(subs) => {
                let mut full_seen = false;
                for s in &subs {
                    st.cmap_subtables_checked += 1;
                    let want: BTreeMap<u32, u32> = if s.format == 4 {
                        exp_cmap.iter().filter(|(c, _)| **c <= 0xFFFF).map(|(c, g)| (*c, *g)).collect()
                    } else {
                        exp_cmap.clone()
                    };
                    if want == exp_cmap {
                        full_seen = true;
                    }
                    st.cmap_mappings_checked += want.len() as u64;
                    if s.map != want {
                        let kind = if let Some((cp, g)) = s.map.iter().find(|(c, _)| !want.contains_key(c)) {
                            let owner = d.glyphs.iter().find(|x| x.codepoints.contains(cp));
                            if owner.is_some_and(|o| !o.export) && *g < n {
                                "extra-for-non-exported-glyph"
                            } else {
                                "extra"
                            }
                        } else if want.keys().any(|c| !s.map.contains_key(c)) {
                            "missing"
                        } else {
                            "wrong-glyph"
                        };
                        viol.push((
                            format!("cmap:{kind}:format{}", s.format),
                            format!(
                                "cmap subtable ({},{}) format {} maps {:X?}, the source determines {:X?} (glyph order {actual:?})",
                                s.platform, s.encoding, s.format, s.map, want
                            ),
                        ));
                    }
                }
                if !exp_cmap.is_empty() && !full_seen {
                    viol.push((
                        "cmap:no-full-subtable".into(),
                        format!("no cmap subtable can hold all of {exp_cmap:X?} (subtable formats {:?})", subs.iter().map(|s| s.format).collect::<Vec<_>>()),
                    ));
                }
            }
        },
    }

    // ---- outlines / components
    let mut any_composite = false;
    for (gid, name) in actual.iter().enumerate() {
        let derived_from = m.derived.iter().find(|(dn, _)| dn == name).map(|(_, x)| x.clone());
        let got = match font_resolved(&font, gid as u32, n, 0) {
            Ok(g) => g,
            Err(e) => {
                viol.push((format!("glyf:{}", msg_class(&e)), format!("glyph {gid} '{name}': {e}")));
                continue;
            }
        };
        if !got.2.is_empty() {
            any_composite = true;
        }
        if !m.outlines_ok {
            continue;
        }
        if name == ".notdef" && m.notdef_synth {
            continue;
        }
        let want = match &derived_from {
            Some(x) => {
                let f = &m.flat[x];
                let mut p: Vec<Pt> = f.contours.iter().flatten().cloned().collect();
                p.sort();
                (f.contours.len(), p)
            }
            None => resolved(&m, name, 0),
        };
        st.outlines_compared += 1;
        if (got.0, &got.1) != (want.0, &want.1) {
            let kind = if derived_from.is_some() {
                "derived-glyph"
            } else if m.flat[name].contours.len() + m.flat[name].comps.len()
                != d.glyph(name).and_then(|g| layer_of(d, g)).map(|l| l.contours.len() + l.components.len()).unwrap_or(0)
                || d.glyph(name).and_then(|g| layer_of(d, g)).is_some_and(|l| l.components.iter().any(|c| m.non_exported.contains(&c.base)))
            {
                "user-of-non-exported-component"
            } else if !m.flat[name].comps.is_empty() {
                "composite"
            } else {
                "simple"
            };
            viol.push((
                format!("outline:{kind}"),
                format!(
                    "glyph {gid} '{name}' resolves to {} contours {:?}, the source gives {} contours {:?}",
                    got.0, got.1, want.0, want.1
                ),
            ));
        }
    }
    st.composites_in_font = any_composite as u64;

    // ---- hmtx follows the same order
    if let (Some(hhea), Some(hmtx)) = (raw_table(bytes, b"hhea"), raw_table(bytes, b"hmtx")) {
        let nhm = be16(hhea, 34).unwrap_or(0);
        if nhm == 0 || nhm > n || hmtx.len() as u32 != 4 * nhm + 2 * (n - nhm) {
            viol.push((
                "hmtx:size".into(),
                format!("numberOfHMetrics {nhm}, hmtx {} bytes, numGlyphs {n}", hmtx.len()),
            ));
        } else {
            for (gid, name) in actual.iter().enumerate() {
                let src = match m.derived.iter().find(|(dn, _)| dn == name) {
                    Some((_, x)) => x.clone(),
                    None => name.clone(),
                };
                if name == ".notdef" && m.notdef_synth {
                    continue;
                }
                let Some(want) = m.advances.get(&src) else { continue };
                let i = (gid as u32).min(nhm - 1);
                let got = be16(hmtx, 4 * i as usize).unwrap_or(0) as i32;
                st.advances_compared += 1;
                if got != *want {
                    viol.push((
                        "hmtx:advance-of-other-glyph".into(),
                        format!("glyph {gid} '{name}' has advance {got}, its source says {want} (order {actual:?})"),
                    ));
                }
            }
        }
    }
    if variable {
        match font.gvar() {
            Ok(gvar) => {
                if gvar.glyph_count() as u32 != n {
                    viol.push(("gvar:count".into(), format!("gvar.glyphCount {} != numGlyphs {n}", gvar.glyph_count())));
                }
            }
            Err(e) => viol.push(("gvar:absent".into(), format!("variable source but gvar: {e}"))),
        }
    }

    // ---- layout
    match gsub_single_map(&font) {
        Err(e) => viol.push((format!("gsub:{}", msg_class(&e)), e)),
        Ok((map, _other)) => {
            let mut want = BTreeSet::new();
            if d.features_fea.is_some() {
                if let (Some(a), Some(b)) = (gid_of("A"), gid_of("B")) {
                    if m.exported.contains("A") && m.exported.contains("B") {
                        want.insert((a, b));
                    }
                }
            }
            if !fea_glyphs_missing {
                st.gsub_rules_checked += want.len() as u64;
                if map != want {
                    viol.push((
                        "gsub:wrong-glyphs".into(),
                        format!("GSUB single substitutions {map:?}, the feature file says {want:?} (order {actual:?})"),
                    ));
                }
            } else if map.iter().any(|(a, b)| *a >= n || *b >= n) {
                viol.push(("gsub:glyph-out-of-range".into(), format!("GSUB substitutions {map:?}, numGlyphs {n}")));
            }
        }
    }
    match gpos_pairs(&font, n) {
        Err(e) => viol.push((format!("gpos:{}", msg_class(&e)), e)),
        Ok((pairs, _other)) => {
            let master = &d.masters[d.default_master];
            let members = |side: &String| -> Vec<String> {
                match master.groups.get(side) {
                    Some(v) => v.clone(),
                    None => vec![side.clone()],
                }
            };
            let mut want = BTreeMap::new();
            let mut dropped = false;
            for ((a, b), v) in &master.kerning {
                for x in members(a) {
                    for y in members(b) {
                        match (m.exported.contains(&x).then(|| gid_of(&x)).flatten(), m.exported.contains(&y).then(|| gid_of(&y)).flatten()) {
                            (Some(gx), Some(gy)) => {
                                want.insert((gx, gy), *v as i32);
                            }
                            _ => dropped = true,
                        }
                    }
                }
            }
            st.gpos_pairs_checked += want.len() as u64;
            st.kerning_dropped_for_non_export = dropped as u64;
            if pairs != want {
                viol.push((
                    format!("gpos:wrong-pairs{}", if dropped { ":non-exported-kerned" } else { "" }),
                    format!("GPOS pair adjustments {pairs:?}, kerning.plist restricted to exported glyphs says {want:?} (order {actual:?})"),
                ));
            }
        }
    }

    let nontrivial = st.notdef_misplaced + st.notdef_synthesised + st.declared_reorders + st.with_non_exported + st.derived_glyph + st.renamed > 0
        || !exp_cmap.is_empty() && m.fixed.len() >= 3;
    Verdict { stats: st, viol, nontrivial, summary }
}

fn write_source(d: &Design, dir: &std::path::Path, variable: bool, glyphs3: bool) -> std::path::PathBuf {
    if glyphs3 {
        d.write_glyphs3(dir)
    } else if variable {
        d.write_designspace(dir)
    } else {
        d.write_single_ufo(dir)
    }
    .unwrap_or_else(|e| vcore::machinery_error(&format!("writing the source: {e}")))
}

fn run_design(d: &Design, opts: &fcx::Opts, variable: bool, glyphs3: bool) -> (Verdict, Result<Vec<u8>, fcx::Failure>) {
    if glyphs3 {
        let why = d.glyphs_unrepresentable();
        if !why.is_empty() {
            vcore::machinery_error(&format!("a design of a Glyphs 3 twin space is not representable: {why:?}"));
        }
    }
    let sc = vcore::Scratch::new("c06");
    let path = write_source(d, sc.path(), variable, glyphs3);
    let r = fcx::compile(&path, opts, None);
    (judge(d, opts, variable, glyphs3, &r), r)
}

fn replay(path: &std::path::Path) -> ! {
    let s = std::fs::read_to_string(path).unwrap_or_else(|e| vcore::machinery_error(&format!("{path:?}: {e}")));
    let v: Value = serde_json::from_str(&s).unwrap_or_else(|e| vcore::machinery_error(&format!("{path:?}: {e}")));
    let r = v.get("replay").cloned().unwrap_or(v);
    let glyphs3 = r["case"]["glyphs3"].as_bool().or(r["glyphs3"].as_bool()).unwrap_or(false);
    let (d, opts, variable) = if r.get("case").is_some_and(|c| !c.is_null()) {
        let case: Case = serde_json::from_value(r["case"].clone()).unwrap_or_else(|e| vcore::machinery_error(&format!("case: {e}")));
        let (d, opts) = build(&case);
        (d, opts, case.variable)
    } else {
        let d: Design = serde_json::from_value(r["design"].clone()).unwrap_or_else(|e| vcore::machinery_error(&format!("design: {e}")));
        let opts: fcx::Opts = serde_json::from_value(r["opts"].clone()).unwrap_or_else(|e| vcore::machinery_error(&format!("opts: {e}")));
        (d, opts, r["variable"].as_bool().unwrap_or(false))
    };
    let (v, res) = run_design(&d, &opts, variable, glyphs3);
    if glyphs3 {
        println!("source format: Glyphs 3 (.glyphs written by dgen)");
    }
    println!("case: {}", serde_json::to_string_pretty(&v.summary).unwrap());
    match &res {
        Ok(b) => println!("compiled: {} bytes", b.len()),
        Err(e) => println!("compile failed: {e:?}"),
    }
    // the same source through the unmodified product binary, when it has been built
    let bin = vcore::fontc_bin();
    if bin.is_file() {
        let sc = vcore::Scratch::new("c06-replay");
        let src = write_source(&d, sc.path(), variable, glyphs3);
        let mut cmd = vcore::fontc_cmd(&bin, None);
        cmd.arg(&src).arg("-o").arg(sc.join("out.ttf")).arg("--build-dir").arg(sc.join("build"));
        cmd.args(opts.cli_args());
        let o = vcore::run_proc(&mut cmd, 60_000, None);
        println!("product binary {}: {}", bin.display(), o.summary());
        for l in o.stderr.lines().filter(|l| l.contains("ERROR") || l.contains("panicked") || l.contains("Error")).take(6) {
            println!("  | {l}");
        }
        if let Ok(b) = std::fs::read(sc.join("out.ttf")) {
            let v2 = judge(&d, &opts, variable, glyphs3, &Ok(b));
            println!("  font written by the product binary: {} violation(s)", v2.viol.len());
            for (k, w) in &v2.viol {
                println!("  VIOLATION {k}: {w}");
            }
        }
    }
    if v.viol.is_empty() {
        println!("no violation");
        vcore::cleanup_scratch();
        std::process::exit(0)
    }
    for (k, w) in &v.viol {
        println!("VIOLATION {k}: {w}");
    }
    vcore::cleanup_scratch();
    std::process::exit(1)
}

fn main() {
    let args = vcore::parse_args();
    // compiler panics are caught and judged; only panics of this harness are printed
    std::panic::set_hook(Box::new(|info| {
        if info.location().is_some_and(|l| l.file().ends_with("c06.rs")) {
            eprintln!("harness panic: {info}");
        }
    }));
    if let Some(p) = &args.replay {
        replay(p);
    }
    let mut rep = Reporter::new("C06", "exploration", &args);
    let (cases, notes) = spaces(args.tier);
    let chunk = 32usize;
    let nchunks = cases.len().div_ceil(chunk);
    let results = vcore::par_for(nchunks, vcore::ncores(), |ci| {
        let mut st = Stats::default();
        let mut viol: Vec<(String, String, Value)> = vec![];
        let mut samples: Vec<Value> = vec![];
        let mut hashes: Vec<u64> = vec![];
        for (k, case) in cases[ci * chunk..((ci + 1) * chunk).min(cases.len())].iter().enumerate() {
            let (d, opts) = build(case);
            let (v, _) = run_design(&d, &opts, case.variable, case.glyphs3);
            add_stats(&mut st, &v.stats);
            if v.nontrivial {
                let mut canon = case.clone();
                canon.space.clear();
                hashes.push(vcore::hash64(serde_json::to_string(&canon).unwrap().as_bytes()));
            }
            let _ = k;
            if ci % 41 == 7 && samples.is_empty() && v.nontrivial && v.viol.is_empty() {
                samples.push(json!({"space": case.space, "case": v.summary}));
            }
            let mut seen = BTreeSet::new();
            for (key, what) in v.viol {
                let key = key.replace(' ', "-");
                if seen.insert(key.clone()) {
                    viol.push((
                        key,
                        format!("[{}] {what}; case {}", case.space, v.summary),
                        // `case` is everything needed (build() is deterministic); the Design is added
                        // for readers when it serialises (tuple-keyed kerning maps do not)
                        json!({"case": case, "opts": opts, "variable": case.variable, "glyphs3": case.glyphs3,
                               "design": serde_json::to_value(&d).unwrap_or(Value::Null)}),
                    ));
                }
            }
        }
        (st, viol, samples, hashes)
    });
    let mut total = Stats::default();
    let mut samples = vec![];
    let mut distinct: HashSet<u64> = HashSet::new();
    for (st, viol, s, hashes) in results {
        add_stats(&mut total, &st);
        for (k, w, r) in viol {
            rep.violation(&k, &w, r);
        }
        for x in s {
            if samples.len() < 12 && samples.iter().filter(|y: &&Value| y["space"] == x["space"]).count() < 1 {
                samples.push(x);
            }
        }
        distinct.extend(hashes);
    }
    total.nontrivial = distinct.len() as u64;
    rep.set("evaluations", total.evaluations);
    rep.set("distinct_nontrivial", distinct.len() as u64);
    rep.set("rule", "distinct (design, options) that compiled and in which the reference differs from a plain alphabetical listing of the source glyphs: .notdef moved or synthesised, public.glyphOrder reorders >= 2 exported glyphs, a glyph is non-exported, a glyph is derived, a post name is remapped, or the font has >= 2 source glyphs and a non-empty cmap");
    rep.set("counts", serde_json::to_value(&total).unwrap());
    rep.set("spaces", notes);
    rep.set("samples", samples);
    rep.set("exhaustive", true);
    rep.assume("source format: UFO 3 / designspace 4.1 written by dgen; Glyphs 3 twins only of the spaces order, order-alt, order-export (static, no rename map) and, thorough tier, names-collide with <= 3 glyphs (rename map written as `production` entries); glyph names over {.notdef,A,B,C,D,E,a,Z,A.alt,A.0,A.1,A.2,A.1.1,B.1}; public.glyphOrder without repeated names");
    rep.assume("Glyphs 3 twin: declared order = the glyphOrder custom parameter; undeclared glyphs follow in FILE order (glyphs-reader make_glyph_order, Glyphs.app's own order) where a UFO sorts them by name — the property only asks for a fixed order (fontmake would sort the rest of a partial glyphOrder via ufo2ft; not judged, cases where the two differ are counted in glyphs3_undeclared_not_in_byte_order); the production name of a twin's glyph is its `production` entry, else its own name (names and codepoints chosen so that GlyphData does not rename them: a Glyphs source, like glyphsLib, gives a glyph whose name GlyphData does not know the production name of its codepoint's entry, e.g. U+1F600 -> u1F600, so the names-collide twins encode A.1.1 as U+0063 instead)");
    rep.assume("several glyphs resolving to one final name (names-collide, names): asserted are (1) final names pairwise distinct, (2) a glyph whose production name no other glyph resolves to and that is not a numbered form r(.N)+ of a shared name r keeps exactly that name, (3) the first glyph in glyph order of a shared name keeps it (unless the shared name is itself a numbered form of another shared name), (4) the others get that name plus '.N' segments — fontbe/src/post.rs documents that it follows ufo2ft's _unique_name. WHICH N a duplicate gets is not fixed by the property: agreement with ufo2ft's numbering is measured (dedup_numbering_differs_from_ufo2ft), not judged");
    rep.assume("with --no-production-names public.postscriptNames must have no effect at all (post names = source names), whatever it maps (renaming_off_with_map cases)");
    rep.assume("two EXPORTED glyphs claiming one codepoint: the property cannot hold; the compiler must refuse (ufo2ft raises InvalidFontData, write-fonts returns CmapConflict) — an error is counted as expected, a built font is a violation");
    rep.assume("the order of several derived glyphs among themselves is not fixed by the property: the modelled creation order or its reverse are both accepted (counted in derived_order_differs_from_model)");
    rep.assume("a derived name X.<n> may reuse the name of a NON-exported source glyph X.<n> (names in use = glyphs of the font); its outline must then be the deriving glyph's contours");
    rep.assume("a feature file that names a non-exported or absent glyph may be refused or built; counted, not judged (GSUB glyph ids must still be in range)");
    rep.assume("production names follow ufo2ft's postProcessor: rename map, drop characters outside [A-Za-z0-9._], '.N' suffix for duplicates in glyph order");
    rep.assume("outline comparison: line-only integer contours, identity-2x2 components; compared as contour count + multiset of points of the fully resolved glyph (start point and direction are free); the synthesised .notdef outline is not compared");
    rep.finish()
}
