//! Engine A — controlled scheduler for the real `Workload::exec`, stateful DFS by re-execution.
//!
//! The compiler is built with `--cfg fontc_verif`; `fontdrasil::verif` hands every
//! synchronisation step of the scheduler loop and of the worker closures to the `Handle`
//! installed on the calling thread. Exactly one actor runs between two points; the actor
//! that parks runs the scheduling step itself. See DESIGN.md §2.2.

pub mod absmodel;

use fontdrasil::verif::{Ev, Hooks, Op, install};
use std::{
    collections::{BTreeMap, BTreeSet, HashMap, VecDeque},
    hash::{Hash, Hasher},
    sync::{Arc, Condvar, Mutex},
    time::Instant,
};

#[derive(Debug, Clone, PartialEq, Eq, Hash)]
enum COp {
    User(Op),
    Join,
}

#[derive(Default)]
struct Actor {
    next: Option<COp>,
    done: bool,
    started: bool,
    ended: bool,
    job: Option<String>,
    decs_done: usize,
    sent: bool,
    received: bool,
    counters: Vec<&'static str>,
    vc: Vec<u32>,
    /// protocol trace: S(tart) B(egin) E(nd) D(ec) s(end) e(nd)
    trace: String,
}

#[derive(Debug, Clone)]
struct AccessRec {
    actor: usize,
    job: Option<String>,
    write: bool,
    item: String,
    vc: Vec<u32>,
}

/// One entry of the ordered event log of a recorded execution (`run_recorded`): what the abstract
/// scheduler model (`absmodel`) is extracted from and what it is validated against.
#[derive(Debug, Clone, PartialEq, serde::Serialize, serde::Deserialize)]
pub enum LogEv {
    /// scheduler view at the start of `exec` (`about` empty) or after `handle_success(about)`
    Snapshot { about: String, text: String },
    /// main is at the top of its loop (a scan of the pending jobs follows)
    LoopHead,
    Launch { job: String },
    ExecBegin { job: String },
    ExecEnd { job: String },
    /// a context access; `job` is None for the main thread
    Access { job: Option<String>, write: bool, item: String },
    Dec { job: String, counter: String },
    Send { job: String },
    Received { job: String },
    HandleSuccess { job: String },
}

/// The visited-state set: `check_insert(key, remaining)` returns true if the state must be
/// expanded (never seen, or seen only with a smaller remaining deviation budget).
pub trait VisitedSet: Send + Sync {
    fn check_insert(&self, key: u64, remaining: usize) -> bool;
    fn len(&self) -> usize;
}

impl VisitedSet for Mutex<HashMap<u64, usize>> {
    fn check_insert(&self, key: u64, remaining: usize) -> bool {
        let mut v = self.lock().unwrap();
        match v.get(&key) {
            Some(r) if *r >= remaining => false,
            _ => {
                v.insert(key, remaining);
                true
            }
        }
    }
    fn len(&self) -> usize {
        self.lock().unwrap().len()
    }
}

pub type Visited = Arc<dyn VisitedSet>;

pub fn new_visited() -> Visited {
    Arc::new(Mutex::new(HashMap::new()))
}

/// A visited set shared between worker processes: open-addressing table in a shared-memory file.
pub struct ShmTable {
    ptr: *mut std::sync::atomic::AtomicU64,
    cap: usize,
}
unsafe impl Send for ShmTable {}
unsafe impl Sync for ShmTable {}

impl ShmTable {
    pub const ENTRIES: usize = 1 << 23;
    pub fn create(path: &std::path::Path) -> std::io::Result<()> {
        let f = std::fs::OpenOptions::new().read(true).write(true).create(true).truncate(true).open(path)?;
        f.set_len((Self::ENTRIES * 16) as u64)
    }
    pub fn open(path: &std::path::Path) -> std::io::Result<ShmTable> {
        use std::os::fd::AsRawFd;
        let f = std::fs::OpenOptions::new().read(true).write(true).open(path)?;
        let len = f.metadata()?.len() as usize;
        let ptr = unsafe {
            libc::mmap(std::ptr::null_mut(), len, libc::PROT_READ | libc::PROT_WRITE, libc::MAP_SHARED, f.as_raw_fd(), 0)
        };
        if ptr == libc::MAP_FAILED {
            return Err(std::io::Error::last_os_error());
        }
        Ok(ShmTable { ptr: ptr as *mut _, cap: len / 16 })
    }
    fn slot(&self, i: usize) -> (&std::sync::atomic::AtomicU64, &std::sync::atomic::AtomicU64) {
        unsafe { (&*self.ptr.add(2 * i), &*self.ptr.add(2 * i + 1)) }
    }
}

impl VisitedSet for ShmTable {
    fn check_insert(&self, key: u64, remaining: usize) -> bool {
        use std::sync::atomic::Ordering::SeqCst;
        let key = if key == 0 { 1 } else { key };
        let want = remaining as u64 + 1;
        let mut i = (key.wrapping_mul(0x9E3779B97F4A7C15) >> 20) as usize % self.cap;
        for _ in 0..self.cap {
            let (k, v) = self.slot(i);
            let cur = k.load(SeqCst);
            if cur == 0 {
                match k.compare_exchange(0, key, SeqCst, SeqCst) {
                    Ok(_) => {
                        v.store(want, SeqCst);
                        return true;
                    }
                    Err(other) if other != key => {
                        i = (i + 1) % self.cap;
                        continue;
                    }
                    Err(_) => {}
                }
            } else if cur != key {
                i = (i + 1) % self.cap;
                continue;
            }
            // our key
            loop {
                let have = v.load(SeqCst);
                if have >= want {
                    return false;
                }
                if v.compare_exchange(have, want, SeqCst, SeqCst).is_ok() {
                    return true;
                }
            }
        }
        true // table full: expand everything (sound, only slower)
    }
    fn len(&self) -> usize {
        0
    }
}

/// One step of a *guided* execution: the schedule follows a trace of the abstract scheduler model
/// (`absmodel`) instead of a choice list. `Scan`: the main thread runs from the top of its loop until it
/// blocks in `recv` (the jobs it launches are compared with the model's). `Finish(j)`: tasks are started
/// (each pops the front of the real run queue and executes it) until one holds job `j`, which then runs
/// through its counter decrements and stops before its `send`. `Batch(js)`: those jobs send their
/// completions in this order and the main thread receives and handles exactly this batch. `Exec(j)`:
/// tasks are started until `j` has been executed (used after a model counterexample: the job the model
/// says can launch too early really runs).
#[derive(Debug, Clone, PartialEq, serde::Serialize, serde::Deserialize)]
pub enum Guide {
    Scan(Vec<String>),
    Finish(String),
    Batch(Vec<String>),
    Exec(String),
}

#[derive(Clone)]
pub struct RunCfg {
    /// pool size: at most k tasks between TaskStart and TaskEnd
    pub k: usize,
    /// base order: main has the lowest (true) or highest (false) base priority
    pub main_last: bool,
    /// deviation budget (demotions)
    pub dmax: usize,
    /// on reaching a visited state: false = abandon the execution, true = finish it on the default schedule
    pub harvest: bool,
}

#[derive(Default)]
struct Inner {
    actors: Vec<Actor>,
    current: Option<usize>,
    chan: VecDeque<(String, Vec<u32>, usize)>,
    queue: Vec<String>,
    launched: HashMap<String, Vec<&'static str>>,
    launch_vc: HashMap<String, Vec<u32>>,
    counter_vc: HashMap<&'static str, Vec<u32>>,
    inflight: usize,
    k: usize,
    main_last: bool,
    harvest: bool,
    fast_forward: bool,
    demoted: Vec<usize>,
    accesses: Vec<AccessRec>,
    obs: Vec<String>,
    launch_order: Vec<String>,
    window_loads: usize,
    passthrough_loads: usize,
    yielding_loads: usize,
    abort: bool,
    finished: bool,
    deadlock: Option<String>,
    pruned: bool,
    prefix: Vec<usize>,
    step: usize,
    points: Vec<(usize, usize)>,
    branchable: usize,
    visited: Option<Visited>,
    new_states: usize,
    dmax: usize,
    used: usize,
    cvs: Vec<Arc<Condvar>>,
    threads: Vec<std::thread::JoinHandle<()>>,
    divergence: Option<String>,
    record: bool,
    log: Vec<LogEv>,
    guided: bool,
    guide: Vec<Guide>,
    gpos: usize,
    gphase: bool,
    gmark: usize,
    guide_notes: Vec<String>,
    guide_steps_followed: usize,
}

struct Shared {
    m: Mutex<Inner>,
    cv: Condvar,
}

struct AbortExec;

struct Handle {
    sh: Arc<Shared>,
    id: usize,
}

fn vc_join(a: &mut Vec<u32>, b: &[u32]) {
    if a.len() < b.len() {
        a.resize(b.len(), 0);
    }
    for (x, y) in a.iter_mut().zip(b) {
        *x = (*x).max(*y);
    }
}

impl Inner {
    fn tick(&mut self, id: usize) {
        let a = &mut self.actors[id];
        if a.vc.len() <= id {
            a.vc.resize(id + 1, 0);
        }
        a.vc[id] += 1;
    }

    /// is there a started or queued task that still has a Dec on `c` ahead of it?
    fn pending_dec(&self, c: &str) -> bool {
        for (i, a) in self.actors.iter().enumerate() {
            if i == 0 || a.done || a.ended {
                continue;
            }
            if a.started && a.job.is_some() && a.counters.iter().skip(a.decs_done).any(|x| *x == c) {
                return true;
            }
        }
        self.queue
            .iter()
            .any(|j| self.launched.get(j).is_some_and(|cs| cs.iter().any(|x| *x == c)))
    }

    /// has some task decremented `c` while main has not yet received that task's completion?
    fn in_window(&self, c: &str) -> bool {
        self.actors.iter().enumerate().any(|(i, a)| {
            i != 0 && !a.received && a.counters.iter().take(a.decs_done).any(|x| *x == c)
        })
    }

    fn wake_all(&self, sh: &Shared) {
        for cv in self.cvs.iter() {
            cv.notify_one();
        }
        sh.cv.notify_one();
    }

    fn actor_of(&self, job: &str) -> Option<usize> {
        self.actors.iter().enumerate().skip(1).find(|(_, a)| a.job.as_deref() == Some(job)).map(|(i, _)| i)
    }

    fn next_unstarted(&self) -> Option<usize> {
        self.actors
            .iter()
            .enumerate()
            .skip(1)
            .find(|(_, a)| !a.done && !a.started && matches!(a.next, Some(COp::User(Op::TaskStart))))
            .map(|(i, _)| i)
    }

    fn guide_fail(&mut self, what: String) -> Option<usize> {
        self.divergence = Some(format!("guided replay: step {} ({:?}): {what}", self.gpos, self.guide.get(self.gpos)));
        self.abort = true;
        None
    }

    /// Guided mode: the actor the current step of the guide needs next; None once the guide is exhausted
    /// (the execution then finishes on the default schedule) or when it cannot be followed (divergence).
    fn guide_pick(&mut self) -> Option<usize> {
        loop {
            let Some(step) = self.guide.get(self.gpos).cloned() else {
                self.fast_forward = true;
                self.branchable = self.points.len();
                return None;
            };
            let main_next = self.actors[0].next.clone();
            let main_done = self.actors[0].done;
            match step {
                Guide::Scan(expected) => {
                    let at_rest = main_done || matches!(main_next, Some(COp::Join) | Some(COp::User(Op::RecvBlocking(_))));
                    if !self.gphase {
                        if !matches!(main_next, Some(COp::User(Op::LoopHead(_)))) {
                            return self.guide_fail(format!("the main thread is not at the top of its loop ({main_next:?})"));
                        }
                        self.gphase = true;
                        self.gmark = self.launch_order.len();
                        return Some(0);
                    }
                    if at_rest {
                        let mut got: Vec<String> = self.launch_order[self.gmark..].to_vec();
                        let mut want = expected.clone();
                        got.sort();
                        want.sort();
                        if got != want {
                            self.guide_notes.push(format!("scan {}: the implementation launched {got:?}, the model {want:?}", self.gpos));
                        }
                        self.gphase = false;
                        self.gpos += 1;
                        self.guide_steps_followed += 1;
                        continue;
                    }
                    return Some(0);
                }
                Guide::Finish(job) | Guide::Exec(job) => {
                    let exec_only = matches!(self.guide[self.gpos], Guide::Exec(_));
                    if let Some(a) = self.actor_of(&job) {
                        let act = &self.actors[a];
                        if exec_only || act.done || act.sent || matches!(act.next, Some(COp::User(Op::Send(_))) | Some(COp::User(Op::TaskEnd))) {
                            self.gpos += 1;
                            self.guide_steps_followed += 1;
                            continue;
                        }
                        if matches!(act.next, Some(COp::User(Op::Dec(_)))) {
                            return Some(a);
                        }
                        let n = act.next.clone();
                        return self.guide_fail(format!("the task of {job} is at {n:?}"));
                    }
                    if !self.queue.iter().any(|j| *j == job) {
                        if exec_only {
                            self.guide_notes.push(format!("exec {}: {job} was not launched", self.gpos));
                            self.gpos += 1;
                            continue;
                        }
                        return self.guide_fail(format!("{job} is neither running nor in the run queue"));
                    }
                    match self.next_unstarted() {
                        Some(t) => return Some(t),
                        None => return self.guide_fail(format!("{job} is queued but no task is left to start")),
                    }
                }
                Guide::Batch(jobs) => {
                    if !self.gphase {
                        // phase 1: the completions are sent in the order of the batch
                        let mut pending = None;
                        for j in &jobs {
                            let Some(a) = self.actor_of(j) else {
                                return self.guide_fail(format!("{j} has no task"));
                            };
                            if !self.actors[a].sent && !self.actors[a].done {
                                pending = Some(a);
                                break;
                            }
                        }
                        if let Some(a) = pending {
                            if matches!(self.actors[a].next, Some(COp::User(Op::Send(_))) | Some(COp::User(Op::Dec(_)))) {
                                return Some(a);
                            }
                            let n = self.actors[a].next.clone();
                            return self.guide_fail(format!("task {a} is at {n:?}, not at its send"));
                        }
                        if !matches!(main_next, Some(COp::User(Op::RecvBlocking(_)))) {
                            return self.guide_fail(format!("the main thread is not blocked in recv ({main_next:?})"));
                        }
                        self.gphase = true;
                        self.gmark = self.obs.len();
                        return Some(0);
                    }
                    // phase 2: the main thread drains the channel and handles the batch
                    if main_done || matches!(main_next, Some(COp::Join) | Some(COp::User(Op::LoopHead(_)))) {
                        let handled: Vec<String> =
                            self.obs[self.gmark..].iter().filter_map(|o| o.strip_prefix("H ").map(|x| x.to_string())).collect();
                        if handled != jobs {
                            self.guide_notes.push(format!("batch {}: the implementation handled {handled:?}, the model {jobs:?}", self.gpos));
                        }
                        self.gphase = false;
                        self.gpos += 1;
                        self.guide_steps_followed += 1;
                        continue;
                    }
                    return Some(0);
                }
            }
        }
    }

    /// Called by whoever just released the baton (current == None). Picks the next actor.
    fn sched(&mut self, sh: &Shared) {
        debug_assert!(self.current.is_none());
        if self.abort || self.finished {
            return;
        }
        if self.actors.iter().all(|a| a.done) {
            self.finished = true;
            sh.cv.notify_one();
            return;
        }
        let mut en: Vec<usize> = (0..self.actors.len()).filter(|i| enabled(self, *i)).collect();
        // strict priorities: non-demoted actors by id (main first, or main last), then demoted in demotion order
        let main_last = self.main_last;
        let demoted = self.demoted.clone();
        en.sort_by_key(|i| {
            if let Some(p) = demoted.iter().position(|d| d == i) {
                (2usize, p)
            } else if *i == 0 && main_last {
                (1, 0)
            } else {
                (0, *i)
            }
        });
        if en.is_empty() {
            let waiting: Vec<String> = self
                .actors
                .iter()
                .enumerate()
                .filter(|(_, a)| !a.done)
                .map(|(i, a)| format!("{i}:{:?}", a.next))
                .collect();
            self.deadlock = Some(waiting.join(" | "));
            self.abort = true;
            self.wake_all(sh);
            return;
        }
        let guided_pick = if self.guided && !self.fast_forward { self.guide_pick() } else { None };
        if self.abort {
            self.wake_all(sh);
            return;
        }
        let choice = if let Some(who) = guided_pick {
            match en.iter().position(|e| *e == who) {
                Some(c) => c,
                None => {
                    self.divergence = Some(format!(
                        "guided replay: step {} ({:?}) needs actor {who} ({:?}) which is not enabled",
                        self.gpos,
                        self.guide.get(self.gpos),
                        self.actors[who].next
                    ));
                    self.abort = true;
                    self.wake_all(sh);
                    return;
                }
            }
        } else if self.fast_forward {
            0
        } else if self.step < self.prefix.len() {
            let c = self.prefix[self.step];
            if c >= en.len() {
                self.divergence = Some(format!(
                    "replay divergence at step {}: choice {c} of {} enabled",
                    self.step,
                    en.len()
                ));
                self.abort = true;
                self.wake_all(sh);
                return;
            }
            c
        } else {
            if let Some(visited) = self.visited.clone() {
                if let Some(key) = state_key(self) {
                    let remaining = self.dmax.saturating_sub(self.used);
                    let fresh = visited.check_insert(key, remaining);
                    if fresh {
                        self.new_states += 1;
                    } else if self.harvest {
                        self.pruned = true;
                        self.fast_forward = true;
                        self.branchable = self.points.len();
                    } else {
                        self.pruned = true;
                        self.abort = true;
                        self.wake_all(sh);
                        return;
                    }
                }
            }
            0
        };
        if !self.fast_forward {
            self.points.push((en.len(), choice));
            self.branchable = self.points.len();
            self.used += if self.guided { 0 } else { choice };
            for d in en.iter().take(if self.guided { 0 } else { choice }) {
                if !self.demoted.contains(d) {
                    self.demoted.push(*d);
                }
            }
        }
        self.step += 1;
        let who = en[choice];
        let op = self.actors[who].next.take().unwrap();
        match &op {
            COp::User(Op::TaskStart) => {
                self.inflight += 1;
                self.actors[who].started = true;
                self.actors[who].trace.push('S');
            }
            COp::User(Op::TaskEnd) => {
                self.inflight -= 1;
                self.actors[who].ended = true;
                self.actors[who].trace.push('e');
            }
            COp::User(Op::Dec(c)) => {
                if self.record {
                    let job = self.actors[who].job.clone().unwrap_or_default();
                    self.log.push(LogEv::Dec { job, counter: c.to_string() });
                }
                self.actors[who].decs_done += 1;
                self.actors[who].trace.push('D');
                self.tick(who);
                let mine = self.actors[who].vc.clone();
                let e = self.counter_vc.entry(c).or_default();
                vc_join(e, &mine);
                let e = e.clone();
                vc_join(&mut self.actors[who].vc, &e);
            }
            COp::User(Op::Load(c)) => {
                self.yielding_loads += 1;
                if self.in_window(c) {
                    self.window_loads += 1;
                }
                if let Some(cv) = self.counter_vc.get(c).cloned() {
                    vc_join(&mut self.actors[who].vc, &cv);
                }
            }
            COp::User(Op::Send(j)) => {
                if self.record {
                    self.log.push(LogEv::Send { job: j.clone() });
                }
                self.actors[who].sent = true;
                self.actors[who].trace.push('s');
                self.tick(who);
                let vc = self.actors[who].vc.clone();
                self.chan.push_back((j.clone(), vc, who));
            }
            COp::User(Op::RecvBlocking(_)) | COp::User(Op::TryRecv(_)) => {
                if let Some((_, vc, from)) = self.chan.pop_front() {
                    vc_join(&mut self.actors[who].vc, &vc);
                    self.actors[from].received = true;
                }
            }
            COp::User(Op::LoopHead(_)) => {
                if self.record {
                    self.log.push(LogEv::LoopHead);
                }
            }
            _ => {}
        }
        self.current = Some(who);
        self.cvs[who].notify_one();
    }
}

impl Handle {
    fn park(&self, op: COp) {
        let mut g = self.sh.m.lock().unwrap();
        // ops that commute with everything another actor can do before this actor's next point do not yield
        match &op {
            COp::User(Op::Load(c)) if !g.pending_dec(c) => {
                g.passthrough_loads += 1;
                if g.in_window(c) {
                    g.window_loads += 1;
                }
                if let Some(cv) = g.counter_vc.get(c).cloned() {
                    vc_join(&mut g.actors[self.id].vc, &cv);
                }
                return;
            }
            COp::User(Op::MainRmw(c)) => {
                g.tick(self.id);
                let mine = g.actors[self.id].vc.clone();
                let e = g.counter_vc.entry(c).or_default();
                vc_join(e, &mine);
                let e = e.clone();
                vc_join(&mut g.actors[self.id].vc, &e);
                return;
            }
            _ => {}
        }
        if g.abort {
            if matches!(op, COp::Join) {
                return;
            }
            drop(g);
            std::panic::resume_unwind(Box::new(AbortExec));
        }
        g.actors[self.id].next = Some(op);
        if g.current == Some(self.id) {
            g.current = None;
            g.sched(&self.sh);
        } else if let Some(c) = g.current {
            // fresh task parking for the first time: tell the spawner
            g.cvs[c].notify_one();
        }
        let cv = g.cvs[self.id].clone();
        while g.current != Some(self.id) && !g.abort {
            g = cv.wait(g).unwrap();
        }
        if g.abort {
            let is_join = matches!(g.actors[self.id].next, Some(COp::Join));
            drop(g);
            if is_join {
                return;
            }
            std::panic::resume_unwind(Box::new(AbortExec));
        }
    }
}

impl Hooks for Handle {
    fn point(&self, op: Op) {
        self.park(COp::User(op));
    }
    fn event(&self, ev: Ev) {
        let mut g = self.sh.m.lock().unwrap();
        let id = self.id;
        match ev {
            Ev::Launch { job, counters, .. } => {
                if g.record {
                    g.log.push(LogEv::Launch { job: job.clone() });
                }
                g.tick(id);
                let vc = g.actors[id].vc.clone();
                g.launch_vc.insert(job.clone(), vc);
                g.launched.insert(job.clone(), counters);
                g.obs.push(format!("L {job}"));
                g.launch_order.push(job);
            }
            Ev::QueueOrder(q) => {
                g.queue = q;
            }
            Ev::ExecBegin(job) => {
                if g.record {
                    g.log.push(LogEv::ExecBegin { job: job.clone() });
                }
                if let Some(pos) = g.queue.iter().rposition(|j| *j == job) {
                    g.queue.remove(pos);
                }
                let counters = g.launched.get(&job).cloned().unwrap_or_default();
                let lvc = g.launch_vc.get(&job).cloned().unwrap_or_default();
                let a = &mut g.actors[id];
                a.job = Some(job);
                a.counters = counters;
                a.trace.push('B');
                vc_join(&mut a.vc, &lvc);
                g.tick(id);
            }
            Ev::ExecEnd(job) => {
                if g.record {
                    g.log.push(LogEv::ExecEnd { job });
                }
                g.actors[id].trace.push('E');
                g.tick(id);
            }
            Ev::Access { write, id: item } => {
                // every access gets its own clock value, so "y has seen x" means y synchronised
                // with x's actor *after* x (not merely after the actor's previous release)
                g.tick(id);
                let job = g.actors[id].job.clone();
                let vc = g.actors[id].vc.clone();
                if g.record {
                    g.log.push(LogEv::Access { job: job.clone(), write, item: item.clone() });
                }
                g.accesses.push(AccessRec {
                    actor: id,
                    job,
                    write,
                    item,
                    vc,
                });
            }
            Ev::HandleSuccess(j) => {
                if g.record {
                    g.log.push(LogEv::HandleSuccess { job: j.clone() });
                }
                g.obs.push(format!("H {j}"))
            }
            Ev::Snapshot { about, text } => {
                if g.record {
                    g.log.push(LogEv::Snapshot { about, text });
                }
            }
            Ev::JobAdded(j) => g.obs.push(format!("A {j}")),
            Ev::Received(j) => {
                if g.record {
                    g.log.push(LogEv::Received { job: j.clone() });
                }
                g.obs.push(format!("R {j}"))
            }
            _ => {}
        }
    }
    fn spawn(&self, f: Box<dyn FnOnce() + Send + 'static>) {
        let new_id = {
            let mut g = self.sh.m.lock().unwrap();
            g.actors.push(Actor::default());
            g.cvs.push(Arc::new(Condvar::new()));
            g.actors.len() - 1
        };
        let sh = self.sh.clone();
        let th = std::thread::Builder::new()
            .stack_size(8 << 20)
            .spawn(move || {
                install(Some(Arc::new(Handle {
                    sh: sh.clone(),
                    id: new_id,
                })));
                let _ = std::panic::catch_unwind(std::panic::AssertUnwindSafe(f));
                install(None);
                let mut g = sh.m.lock().unwrap();
                let a = &mut g.actors[new_id];
                a.done = true;
                a.sent = true;
                let dec_inflight = a.started && !a.ended;
                a.ended = true;
                if dec_inflight {
                    g.inflight -= 1;
                }
                if g.current == Some(new_id) {
                    g.current = None;
                    g.sched(&sh);
                }
            })
            .expect("spawn task thread");
        // wait until the new task is parked at its first point
        let mut g = self.sh.m.lock().unwrap();
        g.threads.push(th);
        let cv = g.cvs[self.id].clone();
        while g.actors[new_id].next.is_none() && !g.actors[new_id].done && !g.abort {
            g = cv.wait(g).unwrap();
        }
    }
    fn join_all(&self) {
        self.park(COp::Join);
    }
}

fn enabled(g: &Inner, i: usize) -> bool {
    let a = &g.actors[i];
    if a.done {
        return false;
    }
    match a.next.as_ref() {
        None => false,
        Some(COp::Join) => g.actors.iter().skip(1).all(|t| t.done),
        Some(COp::User(Op::RecvBlocking(_))) => !g.chan.is_empty(),
        Some(COp::User(Op::TaskStart)) => g.inflight < g.k,
        Some(_) => true,
    }
}

fn state_key(g: &Inner) -> Option<u64> {
    // only when main is parked with a full description of its own state
    let main = match g.actors[0].next.as_ref()? {
        COp::User(Op::LoopHead(d)) => format!("LH{d}"),
        COp::User(Op::RecvBlocking(d)) => format!("RB{d}"),
        COp::User(Op::TryRecv(d)) => format!("TR{d}"),
        _ => return None,
    };
    let mut h = std::collections::hash_map::DefaultHasher::new();
    main.hash(&mut h);
    for (j, _, _) in &g.chan {
        j.hash(&mut h);
    }
    "|q".hash(&mut h);
    g.queue.hash(&mut h);
    let mut live: Vec<(String, usize, bool, String)> = g
        .actors
        .iter()
        .skip(1)
        .filter(|a| !a.done && a.started)
        .map(|a| {
            (
                a.job.clone().unwrap_or_default(),
                a.decs_done,
                a.sent,
                format!("{:?}", a.next),
            )
        })
        .collect();
    live.sort();
    live.hash(&mut h);
    let unstarted = g
        .actors
        .iter()
        .skip(1)
        .filter(|a| !a.done && !a.started)
        .count();
    unstarted.hash(&mut h);
    g.k.hash(&mut h);
    g.main_last.hash(&mut h);
    let dem: Vec<String> = g
        .demoted
        .iter()
        .filter(|d| !g.actors[**d].done)
        .map(|d| {
            if *d == 0 {
                "main".to_string()
            } else {
                g.actors[*d].job.clone().unwrap_or(format!("t{d}"))
            }
        })
        .collect();
    dem.hash(&mut h);
    Some(h.finish())
}

/// What one controlled execution showed.
#[derive(Debug, Clone, Default, serde::Serialize, serde::Deserialize)]
pub struct ExecResult {
    /// (number of enabled actors, chosen index) per scheduling step taken before any fast-forward
    pub points: Vec<(usize, usize)>,
    pub pruned: bool,
    /// Some(outcome) if the execution ran to its end (always in harvest mode unless deadlocked)
    pub outcome: Option<String>,
    pub deadlock: Option<String>,
    pub divergence: Option<String>,
    pub races: Vec<String>,
    pub protocol_errors: Vec<String>,
    pub obs: Vec<String>,
    pub launch_order_hash: u64,
    pub window_loads: usize,
    pub passthrough_loads: usize,
    pub yielding_loads: usize,
    pub new_states: usize,
    pub n_steps: usize,
    pub n_tasks: usize,
    pub n_accesses: usize,
    /// ordered event log (only from `run_recorded`)
    #[serde(default, skip_serializing_if = "Vec::is_empty")]
    pub log: Vec<LogEv>,
    /// this execution's log was replayed against the abstract model (`absmodel::conform`)
    #[serde(default)]
    pub conformed: bool,
    #[serde(default)]
    pub conform_error: Option<String>,
    /// guided executions: steps of the guide followed, and what differed from the model on the way
    #[serde(default)]
    pub guide_steps_followed: usize,
    #[serde(default)]
    pub guide_notes: Vec<String>,
}

/// The job: runs the compiler on the calling thread (a handle is installed) and describes the result.
pub type Job = Arc<dyn Fn() -> String + Send + Sync>;

pub fn run_one(job: &Job, cfg: &RunCfg, prefix: &[usize], visited: Option<&Visited>) -> ExecResult {
    run_inner(job, cfg, prefix, visited, false)
}

/// `run_one` that also returns the ordered event log of the execution (`ExecResult::log`).
pub fn run_recorded(job: &Job, cfg: &RunCfg, prefix: &[usize]) -> ExecResult {
    run_inner(job, cfg, prefix, None, true)
}

/// One execution that follows a model trace (see `Guide`), recorded; when the guide is exhausted the
/// execution finishes on the default schedule.
pub fn run_guided(job: &Job, cfg: &RunCfg, guide: &[Guide]) -> ExecResult {
    run_inner2(job, cfg, &[], None, true, Some(guide))
}

fn run_inner(job: &Job, cfg: &RunCfg, prefix: &[usize], visited: Option<&Visited>, record: bool) -> ExecResult {
    run_inner2(job, cfg, prefix, visited, record, None)
}

fn run_inner2(job: &Job, cfg: &RunCfg, prefix: &[usize], visited: Option<&Visited>, record: bool, guide: Option<&[Guide]>) -> ExecResult {
    let sh = Arc::new(Shared {
        m: Mutex::new(Inner {
            guided: guide.is_some(),
            guide: guide.map(|g| g.to_vec()).unwrap_or_default(),
            record,
            k: cfg.k,
            main_last: cfg.main_last,
            harvest: cfg.harvest,
            prefix: prefix.to_vec(),
            dmax: cfg.dmax,
            visited: visited.cloned(),
            ..Default::default()
        }),
        cv: Condvar::new(),
    });
    {
        let mut g = sh.m.lock().unwrap();
        g.actors.push(Actor {
            started: true,
            received: true,
            ..Default::default()
        });
        g.cvs.push(Arc::new(Condvar::new()));
        g.current = Some(0);
    }
    let outcome: Arc<Mutex<Option<String>>> = Arc::new(Mutex::new(None));
    let main_thread = {
        let sh = sh.clone();
        let outcome = outcome.clone();
        let job = job.clone();
        std::thread::Builder::new()
            .stack_size(16 << 20)
            .spawn(move || {
                install(Some(Arc::new(Handle {
                    sh: sh.clone(),
                    id: 0,
                })));
                let r = std::panic::catch_unwind(std::panic::AssertUnwindSafe(|| job()));
                install(None);
                let o = match r {
                    Ok(s) => Some(s),
                    Err(p) => {
                        if p.is::<AbortExec>() {
                            None
                        } else {
                            Some(format!(
                                "panic:{}",
                                p.downcast_ref::<String>()
                                    .cloned()
                                    .or(p.downcast_ref::<&str>().map(|s| s.to_string()))
                                    .unwrap_or_default()
                            ))
                        }
                    }
                };
                *outcome.lock().unwrap() = o;
                let mut g = sh.m.lock().unwrap();
                g.actors[0].done = true;
                if g.current == Some(0) {
                    g.current = None;
                    g.sched(&sh);
                }
                sh.cv.notify_one();
            })
            .expect("spawn main thread")
    };
    {
        let mut g = sh.m.lock().unwrap();
        while !(g.finished || g.abort) {
            g = sh.cv.wait(g).unwrap();
        }
    }
    let _ = main_thread.join();
    let ths: Vec<_> = std::mem::take(&mut sh.m.lock().unwrap().threads);
    for t in ths {
        let _ = t.join();
    }
    let g = sh.m.lock().unwrap();
    let mut races = race_check(&g.accesses);
    races.sort();
    races.dedup();
    // worker protocol (monitor 4) on tasks that ran to their end
    let mut protocol_errors = vec![];
    if !g.abort {
        for (i, a) in g.actors.iter().enumerate().skip(1) {
            let t = a.trace.as_str();
            // S first, B before E, then any order of Dec* and exactly one send, e last
            let ok = t.starts_with("SBE")
                && t.ends_with('e')
                && t.len() >= 5
                && t[3..t.len() - 1].chars().all(|c| c == 'D' || c == 's')
                && t.matches('s').count() == 1;
            if !ok {
                protocol_errors.push(format!("task {i} ({:?}) trace {t}", a.job));
            }
        }
    }
    let mut lh = std::collections::hash_map::DefaultHasher::new();
    g.launch_order.hash(&mut lh);
    let aborted = g.abort;
    ExecResult {
        points: g.points[..g.branchable.min(g.points.len())].to_vec(),
        pruned: g.pruned,
        outcome: if aborted { None } else { outcome.lock().unwrap().clone() },
        deadlock: g.deadlock.clone(),
        divergence: g.divergence.clone(),
        races,
        protocol_errors,
        obs: g.obs.clone(),
        launch_order_hash: lh.finish(),
        window_loads: g.window_loads,
        passthrough_loads: g.passthrough_loads,
        yielding_loads: g.yielding_loads,
        new_states: g.new_states,
        n_steps: g.step,
        n_tasks: g.actors.len() - 1,
        n_accesses: g.accesses.len(),
        log: g.log.clone(),
        conformed: false,
        conform_error: None,
        guide_steps_followed: g.guide_steps_followed,
        guide_notes: g.guide_notes.clone(),
    }
}

/// Monitor 2: for every pair of accesses to the same item by different actors with at least one
/// real write, one must happen-before the other (vector clocks).
fn race_check(accesses: &[AccessRec]) -> Vec<String> {
    let mut races = Vec::new();
    let mut by_item: BTreeMap<&str, Vec<&AccessRec>> = BTreeMap::new();
    for a in accesses {
        by_item.entry(a.item.as_str()).or_default().push(a);
    }
    for (item, accs) in by_item {
        for (i, x) in accs.iter().enumerate() {
            for y in accs.iter().skip(i + 1) {
                if x.actor == y.actor || !(x.write || y.write) {
                    continue;
                }
                // membership writes of a map commute with each other
                if item.starts_with("MAP:") && x.write && y.write {
                    continue;
                }
                // the main thread is the scheduler, not a compilation step: its reads inside handle_success
                // (recomputing a job's dependencies from a glyph) are not judged (DESIGN.md §2.2b)
                if x.actor == 0 || y.actor == 0 {
                    continue;
                }
                // x precedes y in log order; HB iff y has seen x's own component
                let xs = x.vc.get(x.actor).copied().unwrap_or(0);
                let yv = y.vc.get(x.actor).copied().unwrap_or(0);
                if xs > yv {
                    let who = |a: &AccessRec| {
                        a.job
                            .clone()
                            .unwrap_or_else(|| if a.actor == 0 { "main".into() } else { format!("task{}", a.actor) })
                    };
                    races.push(format!(
                        "{item}: {}({}) vs {}({})",
                        who(x),
                        if x.write { "w" } else { "r" },
                        who(y),
                        if y.write { "w" } else { "r" }
                    ));
                }
            }
        }
    }
    races
}

// ------------------------------------------------------------------ explorer

#[derive(Clone)]
pub struct ExploreCfg {
    pub run: RunCfg,
    pub threads: usize,
    pub max_execs: Option<usize>,
    pub deadline: Option<Instant>,
    /// share a visited map between several explorations (same source, same k/order keyed inside)
    pub visited: Option<Visited>,
}

#[derive(Debug, Clone, Default)]
pub struct ExploreStats {
    pub execs: usize,
    pub pruned: usize,
    pub complete: usize,
    pub states: usize,
    pub transitions: usize,
    pub max_depth: usize,
    pub max_enabled: usize,
    pub outcomes: BTreeMap<String, usize>,
    /// first schedule (choice list) exhibiting each distinct race / failure / deadlock
    pub races: BTreeMap<String, Vec<usize>>,
    pub failures: BTreeMap<String, Vec<usize>>,
    pub deadlocks: BTreeMap<String, Vec<usize>>,
    pub protocol_errors: BTreeMap<String, Vec<usize>>,
    /// executions (complete or abandoned) whose event log was replayed against the abstract model
    pub conformed: usize,
    pub conform_errors: BTreeMap<String, Vec<usize>>,
    pub divergences: Vec<String>,
    pub window_execs: usize,
    pub window_loads: usize,
    pub passthrough_loads: usize,
    pub yielding_loads: usize,
    pub launch_orders: BTreeSet<u64>,
    pub capped: bool,
    pub tasks_max: usize,
    pub steps_max: usize,
    pub default_schedule_steps: usize,
    pub new_states_sum: usize,
    /// first schedule that produced each distinct outcome
    pub outcome_first: BTreeMap<String, Vec<usize>>,
    /// a few explored schedules: (non-default choices as (step, choice), steps, outcome or "abandoned at visited state")
    pub samples: Vec<(Vec<(usize, usize)>, usize, String)>,
}

fn pin_to_core(core: usize) {
    unsafe {
        let mut set: libc::cpu_set_t = std::mem::zeroed();
        libc::CPU_ZERO(&mut set);
        libc::CPU_SET(core, &mut set);
        libc::sched_setaffinity(0, std::mem::size_of::<libc::cpu_set_t>(), &set);
    }
}

fn allowed_cores() -> Vec<usize> {
    unsafe {
        let mut set: libc::cpu_set_t = std::mem::zeroed();
        if libc::sched_getaffinity(0, std::mem::size_of::<libc::cpu_set_t>(), &mut set) != 0 {
            return (0..4).collect();
        }
        (0..libc::CPU_SETSIZE as usize)
            .filter(|c| libc::CPU_ISSET(*c, &set))
            .collect()
    }
}

struct Frontier {
    stack: Vec<Vec<usize>>,
    active: usize,
    execs: usize,
    stop: bool,
}

/// Enumerate all schedules within `dmax` demotions of the base scheduler (stateful DFS by
/// re-execution), in this process: one explorer thread per core.
pub fn explore(job: &Job, cfg: &ExploreCfg) -> ExploreStats {
    let visited: Visited = cfg.visited.clone().unwrap_or_else(new_visited);
    let states_before = visited.len();
    let cores = allowed_cores();
    let nthreads = cfg.threads.max(1).min(cores.len().max(1));
    let runners: Vec<Box<dyn FnMut(&[usize]) -> ExecResult + Send>> = (0..nthreads)
        .map(|t| {
            let job = job.clone();
            let run = cfg.run.clone();
            let visited = visited.clone();
            let core = cores[t % cores.len()];
            let mut pinned = false;
            Box::new(move |prefix: &[usize]| {
                if !pinned {
                    pin_to_core(core);
                    pinned = true;
                }
                run_one(&job, &run, prefix, Some(&visited))
            }) as Box<dyn FnMut(&[usize]) -> ExecResult + Send>
        })
        .collect();
    let mut st = explore_with(runners, cfg);
    st.states = visited.len() - states_before;
    st
}

/// The same search with one worker *process* per core (thread creation in one address space
/// serialises on the kernel's mmap lock; processes do not). The visited set is a table in
/// shared memory. `worker_arg` is handed to the workers (see `worker_env` / `worker_loop`).
pub fn explore_mp(cfg: &ExploreCfg, worker_arg: &str, shm_dir: &std::path::Path) -> ExploreStats {
    use std::io::{BufRead, BufReader, Write};
    use std::process::{Command, Stdio};
    static N: std::sync::atomic::AtomicUsize = std::sync::atomic::AtomicUsize::new(0);
    let shm = shm_dir.join(format!(
        "vrt-visited-{}-{}.shm",
        std::process::id(),
        N.fetch_add(1, std::sync::atomic::Ordering::Relaxed)
    ));
    ShmTable::create(&shm).expect("create shared visited table");
    let cores = allowed_cores();
    let nproc = cfg.threads.max(1).min(cores.len().max(1));
    struct Child {
        proc: std::process::Child,
        stdin: std::process::ChildStdin,
        stdout: BufReader<std::process::ChildStdout>,
    }
    let spawn = {
        let shm = shm.clone();
        let worker_arg = worker_arg.to_string();
        let run = cfg.run.clone();
        move |core: usize| -> Child {
            let exe = if std::path::Path::new("/proc/self/exe").exists() {
                std::path::PathBuf::from("/proc/self/exe")
            } else {
                std::env::current_exe().expect("current_exe")
            };
            let mut cmd = Command::new(exe);
            unsafe {
                use std::os::unix::process::CommandExt;
                cmd.pre_exec(|| {
                    libc::prctl(libc::PR_SET_PDEATHSIG, libc::SIGKILL);
                    Ok(())
                });
            }
            let mut proc = cmd
                .env("VERIF_VRT_WORKER", &worker_arg)
                .env("VERIF_VRT_SHM", &shm)
                .env("VERIF_VRT_CORE", core.to_string())
                .env(
                    "VERIF_VRT_RUN",
                    format!("{},{},{},{}", run.k, run.main_last as u8, run.dmax, run.harvest as u8),
                )
                .stdin(Stdio::piped())
                .stdout(Stdio::piped())
                .stderr(Stdio::null())
                .spawn()
                .expect("spawn vrt worker");
            let stdin = proc.stdin.take().unwrap();
            let stdout = BufReader::new(proc.stdout.take().unwrap());
            Child { proc, stdin, stdout }
        }
    };
    let runners: Vec<Box<dyn FnMut(&[usize]) -> ExecResult + Send>> = (0..nproc)
        .map(|t| {
            let core = cores[t % cores.len()];
            let spawn = spawn.clone();
            let mut child: Option<Child> = None;
            Box::new(move |prefix: &[usize]| {
                for _attempt in 0..2 {
                    let ch = child.get_or_insert_with(|| spawn(core));
                    let line: String = prefix.iter().map(|c| c.to_string()).collect::<Vec<_>>().join(",");
                    let sent = writeln!(ch.stdin, "P {line}").is_ok() && ch.stdin.flush().is_ok();
                    let mut reply = String::new();
                    if sent {
                        loop {
                            reply.clear();
                            match ch.stdout.read_line(&mut reply) {
                                Ok(0) | Err(_) => {
                                    reply.clear();
                                    break;
                                }
                                Ok(_) => {
                                    if reply.starts_with("VRT ") {
                                        break;
                                    }
                                }
                            }
                        }
                    }
                    if let Some(json) = reply.strip_prefix("VRT ") {
                        if let Ok(r) = serde_json::from_str::<ExecResult>(json) {
                            return r;
                        }
                    }
                    // the worker died during this execution: that is an outcome of the execution
                    let status = ch.proc.wait().ok();
                    child = None;
                    use std::os::unix::process::ExitStatusExt;
                    let what = status
                        .map(|s| format!("signal {:?} exit {:?}", s.signal(), s.code()))
                        .unwrap_or_default();
                    if sent {
                        return ExecResult {
                            outcome: Some(format!("crash:worker process died during the execution ({what})")),
                            points: prefix.iter().map(|c| (c + 1, *c)).collect(),
                            ..Default::default()
                        };
                    }
                }
                ExecResult {
                    divergence: Some("worker process could not be started".into()),
                    ..Default::default()
                }
            }) as Box<dyn FnMut(&[usize]) -> ExecResult + Send>
        })
        .collect();
    let mut st = explore_with(runners, cfg);
    st.states = st.new_states_sum;
    let _ = std::fs::remove_file(&shm);
    st
}

/// In a worker process: the argument the coordinator passed.
pub fn worker_env() -> Option<String> {
    std::env::var("VERIF_VRT_WORKER").ok()
}

/// Guided executions (model traces replayed on the implementation), one worker process per core.
/// Every execution is recorded and replayed against the model extracted from the worker's own reference
/// run (`absmodel::conform`), like the executions of the exploration. Results in the order of `guides`.
pub fn guided_mp(worker_arg: &str, guides: &[Vec<Guide>], threads: usize) -> Vec<ExecResult> {
    use std::io::{BufRead, BufReader, Write};
    use std::process::{Command, Stdio};
    let cores = allowed_cores();
    let nproc = threads.max(1).min(cores.len().max(1)).min(guides.len().max(1));
    let next = std::sync::atomic::AtomicUsize::new(0);
    let results: Mutex<Vec<Option<ExecResult>>> = Mutex::new(vec![None; guides.len()]);
    std::thread::scope(|sc| {
        for t in 0..nproc {
            let core = cores[t % cores.len()];
            let next = &next;
            let results = &results;
            sc.spawn(move || {
                let spawn = || {
                    let mut cmd = Command::new("/proc/self/exe");
                    unsafe {
                        use std::os::unix::process::CommandExt;
                        cmd.pre_exec(|| {
                            libc::prctl(libc::PR_SET_PDEATHSIG, libc::SIGKILL);
                            Ok(())
                        });
                    }
                    let mut proc = cmd
                        .env("VERIF_VRT_WORKER", worker_arg)
                        .env("VERIF_VRT_GUIDED", "1")
                        .env("VERIF_VRT_CORE", core.to_string())
                        .stdin(Stdio::piped())
                        .stdout(Stdio::piped())
                        .stderr(Stdio::null())
                        .spawn()
                        .expect("spawn vrt guided worker");
                    let stdin = proc.stdin.take().unwrap();
                    let stdout = BufReader::new(proc.stdout.take().unwrap());
                    (proc, stdin, stdout)
                };
                let mut child = None;
                loop {
                    let i = next.fetch_add(1, std::sync::atomic::Ordering::Relaxed);
                    if i >= guides.len() {
                        break;
                    }
                    let (proc, stdin, stdout) = child.get_or_insert_with(spawn);
                    let line = serde_json::to_string(&guides[i]).unwrap_or_default();
                    let sent = writeln!(stdin, "G {line}").is_ok() && stdin.flush().is_ok();
                    let mut reply = String::new();
                    if sent {
                        loop {
                            reply.clear();
                            match stdout.read_line(&mut reply) {
                                Ok(0) | Err(_) => {
                                    reply.clear();
                                    break;
                                }
                                Ok(_) if reply.starts_with("VRT ") => break,
                                Ok(_) => {}
                            }
                        }
                    }
                    let r = reply.strip_prefix("VRT ").and_then(|j| serde_json::from_str::<ExecResult>(j).ok()).unwrap_or_else(|| {
                        let _ = proc.kill();
                        let _ = proc.wait();
                        ExecResult { outcome: Some("crash:worker process died during the guided execution".into()), ..Default::default() }
                    });
                    if r.outcome.as_deref().is_some_and(|o| o.starts_with("crash:")) {
                        child = None;
                    }
                    results.lock().unwrap()[i] = Some(r);
                }
                if let Some((mut proc, stdin, _)) = child {
                    drop(stdin);
                    let _ = proc.wait();
                }
            });
        }
    });
    results.into_inner().unwrap().into_iter().map(|r| r.unwrap_or_default()).collect()
}

fn guided_worker_loop(job: &Job) -> ! {
    use std::io::{BufRead, Write};
    let run = RunCfg { k: 64, main_last: false, dmax: 0, harvest: false };
    let reference = run_recorded(job, &run, &[]);
    let instance = absmodel::extract(&reference.log);
    let stdin = std::io::stdin();
    let mut line = String::new();
    loop {
        line.clear();
        match stdin.lock().read_line(&mut line) {
            Ok(0) | Err(_) => std::process::exit(0),
            Ok(_) => {}
        }
        let Some(rest) = line.trim_end().strip_prefix("G ") else {
            continue;
        };
        let guide: Vec<Guide> = serde_json::from_str(rest).unwrap_or_default();
        let mut r = run_guided(job, &run, &guide);
        let log = std::mem::take(&mut r.log);
        match &instance {
            Err(e) => r.conform_error = Some(format!("extraction failed: {e}")),
            Ok(inst) => {
                if r.deadlock.is_none() && r.divergence.is_none() && r.outcome.as_deref().is_some_and(|o| o.starts_with("ok:")) {
                    r.conformed = true;
                    if let Err(e) = absmodel::conform(inst, &log, true) {
                        r.conform_error = Some(e);
                    }
                }
            }
        }
        let out = std::io::stdout();
        let mut o = out.lock();
        let _ = writeln!(o, "VRT {}", serde_json::to_string(&r).unwrap_or_default());
        let _ = o.flush();
    }
}

/// Worker process main loop: reads prefixes, runs them, prints results. Never returns.
pub fn worker_loop(job: &Job) -> ! {
    use std::io::{BufRead, Write};
    if let Some(core) = std::env::var("VERIF_VRT_CORE").ok().and_then(|s| s.parse().ok()) {
        pin_to_core(core);
    }
    if std::env::var("VERIF_VRT_GUIDED").is_ok() {
        guided_worker_loop(job);
    }
    let run = {
        let v: Vec<usize> = std::env::var("VERIF_VRT_RUN")
            .unwrap_or_default()
            .split(',')
            .filter_map(|x| x.parse().ok())
            .collect();
        RunCfg {
            k: v.first().copied().unwrap_or(64),
            main_last: v.get(1).copied().unwrap_or(0) == 1,
            dmax: v.get(2).copied().unwrap_or(0),
            harvest: v.get(3).copied().unwrap_or(0) == 1,
        }
    };
    let table: Visited = Arc::new(
        ShmTable::open(std::path::Path::new(&std::env::var("VERIF_VRT_SHM").unwrap_or_default()))
            .expect("open shared visited table"),
    );
    // with VERIF_VRT_CONFORM set every execution is recorded and replayed against the abstract model
    // extracted from this worker's own reference run (default schedule, main first)
    let instance = std::env::var("VERIF_VRT_CONFORM").ok().map(|_| {
        let r = run_recorded(job, &RunCfg { k: 64, main_last: false, dmax: 0, harvest: false }, &[]);
        absmodel::extract(&r.log)
    });
    let stdin = std::io::stdin();
    let mut line = String::new();
    loop {
        line.clear();
        match stdin.lock().read_line(&mut line) {
            Ok(0) | Err(_) => std::process::exit(0),
            Ok(_) => {}
        }
        let Some(rest) = line.trim_end().strip_prefix("P") else {
            continue;
        };
        let prefix: Vec<usize> = rest
            .trim()
            .split(',')
            .filter_map(|x| x.parse().ok())
            .collect();
        let r = match &instance {
            None => run_one(job, &run, &prefix, Some(&table)),
            Some(inst) => {
                let mut r = run_inner(job, &run, &prefix, Some(&table), true);
                let log = std::mem::take(&mut r.log);
                match inst {
                    Err(e) => r.conform_error = Some(format!("extraction failed: {e}")),
                    Ok(inst) => {
                        // a deadlocked / failed / diverged execution is judged by the other monitors
                        if r.deadlock.is_none() && r.divergence.is_none() && r.outcome.as_deref().is_none_or(|o| o.starts_with("ok:")) {
                            r.conformed = true;
                            if let Err(e) = absmodel::conform(inst, &log, r.outcome.is_some()) {
                                r.conform_error = Some(e);
                            }
                        }
                    }
                }
                r
            }
        };
        let out = std::io::stdout();
        let mut o = out.lock();
        let _ = writeln!(o, "VRT {}", serde_json::to_string(&r).unwrap_or_default());
        let _ = o.flush();
    }
}

fn explore_with(
    runners: Vec<Box<dyn FnMut(&[usize]) -> ExecResult + Send>>,
    cfg: &ExploreCfg,
) -> ExploreStats {
    let frontier = Arc::new((
        Mutex::new(Frontier {
            stack: vec![vec![]],
            active: 0,
            execs: 0,
            stop: false,
        }),
        Condvar::new(),
    ));
    let stats = Arc::new(Mutex::new(ExploreStats::default()));
    std::thread::scope(|s| {
        for mut runner in runners {
            let frontier = frontier.clone();
            let stats = stats.clone();
            let cfg = cfg.clone();
            s.spawn(move || {
                loop {
                    let prefix = {
                        let (m, cv) = &*frontier;
                        let mut f = m.lock().unwrap();
                        loop {
                            if f.stop {
                                return;
                            }
                            if let Some(p) = f.stack.pop() {
                                f.active += 1;
                                f.execs += 1;
                                if cfg.max_execs.is_some_and(|mx| f.execs > mx)
                                    || cfg.deadline.is_some_and(|d| Instant::now() > d)
                                {
                                    f.stop = true;
                                    f.active -= 1;
                                    stats.lock().unwrap().capped = true;
                                    cv.notify_all();
                                    return;
                                }
                                break p;
                            }
                            if f.active == 0 {
                                cv.notify_all();
                                return;
                            }
                            f = cv.wait(f).unwrap();
                        }
                    };
                    let r = runner(&prefix);
                    let choices: Vec<usize> = r.points.iter().map(|p| p.1).collect();
                    // children: alternatives at every step after the prefix within the budget
                    let mut children = vec![];
                    let mut used = 0usize;
                    let mut used_before = Vec::with_capacity(choices.len());
                    for c in &choices {
                        used_before.push(used);
                        used += c;
                    }
                    for i in (prefix.len()..r.points.len()).rev() {
                        for alt in 1..r.points[i].0 {
                            if used_before[i] + alt > cfg.run.dmax {
                                break;
                            }
                            let mut p = choices[..i].to_vec();
                            p.push(alt);
                            children.push(p);
                        }
                    }
                    {
                        let mut st = stats.lock().unwrap();
                        st.execs += 1;
                        st.new_states_sum += r.new_states;
                        if prefix.is_empty() {
                            st.default_schedule_steps = r.n_steps;
                        }
                        st.transitions += r.n_steps.saturating_sub(prefix.len());
                        st.max_depth = st.max_depth.max(r.points.len());
                        st.max_enabled = st.max_enabled.max(r.points.iter().map(|p| p.0).max().unwrap_or(0));
                        st.tasks_max = st.tasks_max.max(r.n_tasks);
                        st.steps_max = st.steps_max.max(r.n_steps);
                        st.passthrough_loads += r.passthrough_loads;
                        st.yielding_loads += r.yielding_loads;
                        st.window_loads += r.window_loads;
                        if r.window_loads > 0 {
                            st.window_execs += 1;
                        }
                        if r.pruned {
                            st.pruned += 1;
                        }
                        if st.samples.len() < 4 && (st.execs == 1 || st.execs % 97 == 0 || r.outcome.is_some() && st.samples.len() < 2) {
                            let nz: Vec<(usize, usize)> = choices.iter().enumerate().filter(|(_, c)| **c > 0).map(|(i, c)| (i, *c)).collect();
                            let o = r.outcome.clone().unwrap_or_else(|| "abandoned at a visited state".into());
                            st.samples.push((nz, r.n_steps, o));
                        }
                        if let Some(o) = &r.outcome {
                            st.complete += 1;
                            *st.outcomes.entry(o.clone()).or_default() += 1;
                            st.outcome_first.entry(o.clone()).or_insert_with(|| choices.clone());
                            st.launch_orders.insert(r.launch_order_hash);
                            if !o.starts_with("ok:") {
                                st.failures.entry(o.clone()).or_insert_with(|| choices.clone());
                            }
                        }
                        if let Some(d) = &r.deadlock {
                            st.deadlocks.entry(d.clone()).or_insert_with(|| choices.clone());
                        }
                        if let Some(d) = &r.divergence {
                            st.divergences.push(d.clone());
                        }
                        for x in &r.races {
                            st.races.entry(x.clone()).or_insert_with(|| choices.clone());
                        }
                        for x in &r.protocol_errors {
                            st.protocol_errors.entry(x.clone()).or_insert_with(|| choices.clone());
                        }
                        if r.conformed {
                            st.conformed += 1;
                        }
                        if let Some(e) = &r.conform_error {
                            st.conform_errors.entry(e.clone()).or_insert_with(|| choices.clone());
                        }
                    }
                    let (m, cv) = &*frontier;
                    let mut f = m.lock().unwrap();
                    f.stack.extend(children);
                    f.active -= 1;
                    cv.notify_all();
                }
            });
        }
    });
    Arc::try_unwrap(stats).map(|m| m.into_inner().unwrap()).unwrap_or_default()
}
