//! Abstract model of the `Workload::exec` scheduler, extracted from a recorded execution of the
//! real code and explored exhaustively (every interleaving, no deviation bound).
//!
//! The controlled scheduler (the rest of this crate) explores the *implementation* within a bounded
//! number of deviations from a base schedule. This module removes that bound at the level of an
//! abstraction whose binding to the code is checked, not assumed:
//!
//! * **Extraction.** One recorded execution (`run_recorded`, default schedule) yields the instance:
//!   the jobs with their discriminant (counter), their read access at insertion (from the
//!   scheduler's own `Snapshot` hook events), the also-completes map, the *effect* of every
//!   `handle_success(X)` (jobs added, accesses rewritten, jobs completed without running: the
//!   difference of the snapshots before and after it), and the *conflict order* of the reference
//!   run: for every pair of executions steps that touched the same context item, at least one
//!   writing, which came first.
//! * **Model.** Per job a status Absent → Pending → Running → Finished → Handled and its current
//!   access. Actions: `Scan` (main evaluates `can_run` for every pending job exactly as
//!   `Workload::can_run` does — a specific-instance dependency is fulfilled when the id is not
//!   pending, a variant dependency when the discriminant's counter is zero — and launches all that
//!   can), `Finish(j)` (the worker's exec + counter decrements), `Handle(j)` (completion received,
//!   `handle_success` effects applied). `Scan` is enabled at the start and after at least one
//!   `Handle` (main blocks in `recv` otherwise). Independence arguments for the atomicity of each
//!   action are in DESIGN.md §2.2b.
//! * **Properties on every reachable state:** (1) whenever a job launches, every job whose
//!   conflicting access preceded it in the reference run has finished (the conflict order is
//!   *forced*, not an accident of timing); (2) nothing launchable, nothing running, something
//!   pending = `UnableToProceed`; (3) a rewrite target that the code `expect`s to be pending is
//!   pending; (4) no job completes twice.
//! * **Conformance.** `conform` replays the event log of *any* recorded implementation execution
//!   against the model: every launch must be allowed by the model's `can_run`, the set launched by
//!   a scan must lie between the model's launchable sets at the scan's start and end, every
//!   counter value and every pending job's access in every snapshot must equal the model's, i.e. the
//!   effect of `handle_success(X)` is the same function of X on every schedule.

use crate::LogEv;
use std::collections::{BTreeMap, BTreeSet, HashMap, VecDeque};

#[derive(Debug, Clone, PartialEq, Eq, Hash, PartialOrd, Ord)]
pub enum Dep {
    Inst(String),
    Var(String),
}

#[derive(Debug, Clone, PartialEq, Eq, Hash, PartialOrd, Ord)]
pub enum Acc {
    None,
    Unknown,
    All,
    Set(Vec<Dep>),
}

#[derive(Debug, Clone, Copy, PartialEq, Eq)]
pub enum Kind {
    Work,
    Nop,
    Also,
}

#[derive(Debug, Clone)]
pub struct JobSnap {
    pub kind: Kind,
    pub running: bool,
    pub disc: String,
    pub access: Acc,
}

#[derive(Debug, Clone, Default)]
pub struct Snap {
    pub jobs: BTreeMap<String, JobSnap>,
    pub also: BTreeMap<String, Vec<String>>,
    pub counts: BTreeMap<String, usize>,
}

pub fn parse_snapshot(text: &str) -> Result<Snap, String> {
    let mut s = Snap::default();
    for line in text.split('\n').filter(|l| !l.is_empty()) {
        let f: Vec<&str> = line.split('\u{1f}').collect();
        match f.first().copied() {
            Some("J") if f.len() == 6 => {
                let access = match f[5] {
                    "None" => Acc::None,
                    "Unknown" => Acc::Unknown,
                    "All" => Acc::All,
                    other => Acc::Set(
                        other
                            .split('\u{1e}')
                            .filter(|d| !d.is_empty())
                            .map(|d| match d.split_at(1) {
                                ("I", id) => Ok(Dep::Inst(id.to_string())),
                                ("V", disc) => Ok(Dep::Var(disc.to_string())),
                                _ => Err(format!("bad dependency {d:?}")),
                            })
                            .collect::<Result<Vec<_>, _>>()?,
                    ),
                };
                let kind = match f[2] {
                    "also" => Kind::Also,
                    "nop" => Kind::Nop,
                    _ => Kind::Work,
                };
                s.jobs.insert(f[1].to_string(), JobSnap { kind, running: f[3] == "1", disc: f[4].to_string(), access });
            }
            Some("A") if f.len() == 3 => s.also.entry(f[1].to_string()).or_default().push(f[2].to_string()),
            Some("C") if f.len() == 3 => {
                s.counts.insert(f[1].to_string(), f[2].parse().map_err(|e| format!("count: {e}"))?);
            }
            _ => return Err(format!("unparsable snapshot line {line:?}")),
        }
    }
    Ok(s)
}

/// What `handle_success(X)` does beyond completing X and its also-completes ids.
#[derive(Debug, Clone, Default)]
pub struct Effect {
    /// ids inserted: (job, access index)
    pub added: Vec<(usize, usize)>,
    /// pending jobs whose read access is replaced: (job, access index)
    pub rewritten: Vec<(usize, usize)>,
    /// pending jobs completed by main without running
    pub skipped: Vec<usize>,
}

#[derive(Debug, Clone, Default)]
pub struct Instance {
    pub ids: Vec<String>,
    pub index: HashMap<String, usize>,
    pub kind: Vec<Kind>,
    pub disc: Vec<usize>,
    pub discs: Vec<String>,
    pub parent: Vec<Option<usize>>,
    pub children: Vec<Vec<usize>>,
    /// access table; `Dep::Inst` of an id unknown to the instance is kept as usize::MAX
    pub accs: Vec<AccI>,
    /// per job: present at start with this access
    pub initial: Vec<Option<usize>>,
    pub effects: Vec<Effect>,
    /// jobs whose conflicting access preceded this job's in the reference run: (job, item)
    pub must_finish_before_launch: Vec<Vec<(usize, String)>>,
    /// handle_success(X) whose (main-thread) conflicting access preceded this job's
    pub must_be_handled_before_launch: Vec<Vec<(usize, String)>>,
    /// jobs whose conflicting access preceded main's access in handle_success(this)
    pub must_finish_before_handle: Vec<Vec<(usize, String)>>,
    pub n_conflict_pairs: usize,
    pub n_items: usize,
}

#[derive(Debug, Clone, PartialEq, Eq, Hash)]
pub enum AccI {
    None,
    Unknown,
    All,
    Set(Vec<DepI>),
}

#[derive(Debug, Clone, Copy, PartialEq, Eq, Hash)]
pub enum DepI {
    Inst(usize),
    Var(usize),
}

const ABSENT: u8 = 0;
const PENDING: u8 = 1;
const RUNNING: u8 = 2;
const FINISHED: u8 = 3;
const HANDLED: u8 = 4;

/// Rewrite targets the code `expect`s to be pending ("… has to be pending").
fn must_be_pending(id: &str) -> bool {
    matches!(id, "Be(Glyf)" | "Be(Gvar)" | "Be(GatherIrKerning)" | "Be(GatherBeKerning)")
}

impl Instance {
    fn job(&mut self, id: &str) -> usize {
        if let Some(i) = self.index.get(id) {
            return *i;
        }
        let i = self.ids.len();
        self.ids.push(id.to_string());
        self.index.insert(id.to_string(), i);
        self.kind.push(Kind::Work);
        self.disc.push(usize::MAX);
        self.parent.push(None);
        self.children.push(vec![]);
        self.initial.push(None);
        self.effects.push(Effect::default());
        self.must_finish_before_launch.push(vec![]);
        self.must_be_handled_before_launch.push(vec![]);
        self.must_finish_before_handle.push(vec![]);
        i
    }
    fn disc_idx(&mut self, d: &str) -> usize {
        if let Some(i) = self.discs.iter().position(|x| x == d) {
            return i;
        }
        self.discs.push(d.to_string());
        self.discs.len() - 1
    }
    fn acc_idx(&mut self, a: &Acc) -> usize {
        let ai = match a {
            Acc::None => AccI::None,
            Acc::Unknown => AccI::Unknown,
            Acc::All => AccI::All,
            Acc::Set(v) => AccI::Set(
                v.iter()
                    .map(|d| match d {
                        Dep::Inst(id) => DepI::Inst(self.index.get(id).copied().unwrap_or(usize::MAX)),
                        Dep::Var(d) => DepI::Var(self.disc_idx(d)),
                    })
                    .collect(),
            ),
        };
        if let Some(i) = self.accs.iter().position(|x| *x == ai) {
            return i;
        }
        self.accs.push(ai);
        self.accs.len() - 1
    }
    fn note_job(&mut self, id: &str, js: &JobSnap) -> usize {
        let j = self.job(id);
        self.kind[j] = js.kind;
        self.disc[j] = self.disc_idx(&js.disc);
        j
    }
}

/// Builds the instance from the event log of one recorded execution.
pub fn extract(log: &[LogEv]) -> Result<Instance, String> {
    let mut inst = Instance::default();
    // pass 1: every id that ever appears in a snapshot (so that Inst dependencies resolve)
    let mut snaps: Vec<(String, Snap)> = vec![];
    for ev in log {
        if let LogEv::Snapshot { about, text } = ev {
            let s = parse_snapshot(text)?;
            for (id, js) in &s.jobs {
                inst.note_job(id, js);
            }
            snaps.push((about.clone(), s));
        }
    }
    let Some((first_about, first)) = snaps.first() else {
        return Err("no snapshot in the log (hooks missing?)".into());
    };
    if !first_about.is_empty() {
        return Err("the first snapshot is not the start snapshot".into());
    }
    for (p, cs) in snaps.iter().flat_map(|(_, s)| s.also.iter()) {
        let pi = inst.job(p);
        for c in cs {
            let ci = inst.job(c);
            inst.parent[ci] = Some(pi);
            if !inst.children[pi].contains(&ci) {
                inst.children[pi].push(ci);
            }
        }
    }
    for (id, js) in &first.jobs {
        let j = inst.index[id];
        let a = inst.acc_idx(&js.access);
        inst.initial[j] = Some(a);
    }
    // effects: difference of consecutive snapshots
    for w in snaps.windows(2) {
        let (_, before) = &w[0];
        let (about, after) = &w[1];
        let x = *inst.index.get(about).ok_or_else(|| format!("snapshot about unknown job {about}"))?;
        let mut e = Effect::default();
        for (id, js) in &after.jobs {
            let j = inst.index[id];
            let a = inst.acc_idx(&js.access);
            match before.jobs.get(id) {
                None => e.added.push((j, a)),
                Some(b) if b.access != js.access => e.rewritten.push((j, a)),
                _ => {}
            }
        }
        for id in before.jobs.keys() {
            if !after.jobs.contains_key(id) {
                let j = inst.index[id];
                if j != x && inst.parent[j] != Some(x) {
                    // completed by main without running (or the also-child of such a job)
                    e.skipped.push(j);
                }
            }
        }
        inst.effects[x] = e;
    }
    // conflict order of the reference run
    #[derive(Clone, Copy, PartialEq, Eq, Hash, PartialOrd, Ord, Debug)]
    enum Actor {
        Job(usize),
        Handle(usize),
    }
    let mut handling: Option<usize> = None;
    let mut seq: Vec<(Actor, bool, String)> = vec![];
    for ev in log {
        match ev {
            LogEv::HandleSuccess { job } => handling = inst.index.get(job).copied(),
            LogEv::Snapshot { .. } => handling = None,
            LogEv::Access { job, write, item } => {
                let actor = match job {
                    Some(j) => inst.index.get(j).map(|j| Actor::Job(*j)),
                    None => handling.map(Actor::Handle),
                };
                if let Some(a) = actor {
                    seq.push((a, *write, item.clone()));
                }
            }
            _ => {}
        }
    }
    let mut by_item: BTreeMap<&str, Vec<(Actor, bool)>> = BTreeMap::new();
    for (a, w, item) in &seq {
        let v = by_item.entry(item.as_str()).or_default();
        if !v.contains(&(*a, *w)) {
            v.push((*a, *w));
        }
    }
    inst.n_items = by_item.len();
    let mut pairs: BTreeSet<(Actor, Actor)> = BTreeSet::new();
    for (item, accs) in &by_item {
        for (i, (p, pw)) in accs.iter().enumerate() {
            for (q, qw) in accs.iter().skip(i + 1) {
                if p == q || !(*pw || *qw) {
                    continue;
                }
                // membership writes of a map commute with each other
                if item.starts_with("MAP:") && *pw && *qw {
                    continue;
                }
                if !pairs.insert((*p, *q)) {
                    continue;
                }
                match (*p, *q) {
                    (Actor::Job(p), Actor::Job(q)) => inst.must_finish_before_launch[q].push((p, item.to_string())),
                    (Actor::Handle(x), Actor::Job(q)) => inst.must_be_handled_before_launch[q].push((x, item.to_string())),
                    (Actor::Job(p), Actor::Handle(x)) => {
                        if p != x {
                            inst.must_finish_before_handle[x].push((p, item.to_string()))
                        }
                    }
                    (Actor::Handle(_), Actor::Handle(_)) => {}
                }
            }
        }
    }
    inst.n_conflict_pairs = pairs.len();
    Ok(inst)
}

/// Model state: per job (status, access index), plus "a completion was handled since the last scan".
#[derive(Clone, PartialEq, Eq, Hash)]
pub struct State {
    pub st: Vec<u8>,
    pub acc: Vec<u16>,
    pub can_scan: bool,
}

#[derive(Debug, Clone, PartialEq, Eq)]
pub enum Action {
    Scan(Vec<usize>),
    Finish(usize),
    Handle(usize),
}

impl Instance {
    pub fn initial_state(&self) -> State {
        let n = self.ids.len();
        let mut s = State { st: vec![ABSENT; n], acc: vec![0; n], can_scan: true };
        for j in 0..n {
            if let Some(a) = self.initial[j] {
                s.st[j] = PENDING;
                s.acc[j] = a as u16;
            }
        }
        s
    }

    fn count(&self, s: &State, disc: usize) -> usize {
        (0..self.ids.len()).filter(|j| self.disc[*j] == disc && matches!(s.st[*j], PENDING | RUNNING)).count()
    }

    fn in_jobs_pending(st: u8) -> bool {
        matches!(st, PENDING | RUNNING | FINISHED)
    }

    pub fn can_run(&self, s: &State, j: usize) -> bool {
        self.can_run_with(s, j, &|d| self.count(s, d))
    }

    /// `can_run` with the counter values supplied by the caller (conformance replay keeps the
    /// implementation's own counter values, which change one decrement at a time).
    pub fn can_run_with(&self, s: &State, j: usize, count: &dyn Fn(usize) -> usize) -> bool {
        match &self.accs[s.acc[j] as usize] {
            AccI::None => true,
            AccI::Unknown => false,
            AccI::All => !(0..self.ids.len()).any(|k| k != j && Self::in_jobs_pending(s.st[k])),
            AccI::Set(deps) => deps.iter().all(|d| match d {
                DepI::Inst(i) => *i == usize::MAX || !Self::in_jobs_pending(s.st[*i]),
                DepI::Var(d) => count(*d) == 0,
            }),
        }
    }

    pub fn launchable(&self, s: &State) -> Vec<usize> {
        (0..self.ids.len()).filter(|j| s.st[*j] == PENDING && self.kind[*j] != Kind::Also && self.can_run(s, *j)).collect()
    }

    fn launchable_with(&self, s: &State, counts: &[usize]) -> Vec<usize> {
        (0..self.ids.len())
            .filter(|j| s.st[*j] == PENDING && self.kind[*j] != Kind::Also && self.can_run_with(s, *j, &|d| counts.get(d).copied().unwrap_or(0)))
            .collect()
    }

    /// Property (1) for a job about to launch.
    fn launch_violations(&self, s: &State, q: usize, out: &mut Vec<String>) {
        for (p, item) in &self.must_finish_before_launch[q] {
            if !matches!(s.st[*p], FINISHED | HANDLED) {
                out.push(format!(
                    "order-not-forced: {} can launch while {} ({}) has not finished; both access {item} (one writing) and {} came first in the reference run",
                    self.ids[q],
                    self.ids[*p],
                    status_name(s.st[*p]),
                    self.ids[*p]
                ));
            }
        }
        for (x, item) in &self.must_be_handled_before_launch[q] {
            if s.st[*x] != HANDLED {
                out.push(format!(
                    "scheduler-access: {} can launch before handle_success({}) ({}), whose own access to {item} (made by the main thread while it recomputes dependencies) came first in the reference run",
                    self.ids[q],
                    self.ids[*x],
                    status_name(s.st[*x])
                ));
            }
        }
    }

    fn finish(&self, s: &mut State, j: usize) {
        s.st[j] = FINISHED;
        for c in &self.children[j] {
            if matches!(s.st[*c], PENDING | RUNNING) {
                s.st[*c] = FINISHED;
            }
        }
    }

    /// Applies `handle_success(j)`; violations of properties (1 for main's reads), (3), (4) go to `out`.
    fn handle(&self, s: &mut State, j: usize, out: &mut Vec<String>) {
        for (p, item) in &self.must_finish_before_handle[j] {
            if !matches!(s.st[*p], FINISHED | HANDLED) {
                out.push(format!(
                    "scheduler-access: handle_success({}) can run while {} ({}) has not finished; both access {item}",
                    self.ids[j],
                    self.ids[*p],
                    status_name(s.st[*p])
                ));
            }
        }
        if s.st[j] == HANDLED {
            out.push(format!("completed-twice: {}", self.ids[j]));
        }
        s.st[j] = HANDLED;
        for c in &self.children[j] {
            if s.st[*c] == HANDLED {
                out.push(format!("completed-twice: {}", self.ids[*c]));
            }
            s.st[*c] = HANDLED;
        }
        let e = &self.effects[j];
        for (k, a) in &e.added {
            if s.st[*k] == ABSENT {
                s.st[*k] = PENDING;
                s.acc[*k] = *a as u16;
            }
        }
        for (k, a) in &e.rewritten {
            if Self::in_jobs_pending(s.st[*k]) {
                s.acc[*k] = *a as u16;
            } else if must_be_pending(&self.ids[*k]) {
                out.push(format!(
                    "has-to-be-pending: handle_success({}) rewrites the access of {} which is {}",
                    self.ids[j],
                    self.ids[*k],
                    status_name(s.st[*k])
                ));
            }
        }
        for k in &e.skipped {
            match s.st[*k] {
                PENDING => s.st[*k] = HANDLED,
                RUNNING | FINISHED => out.push(format!(
                    "completed-while-running: handle_success({}) completes {} which was already launched",
                    self.ids[j], self.ids[*k]
                )),
                _ => {}
            }
        }
        s.can_scan = true;
    }

    pub fn all_done(&self, s: &State) -> bool {
        s.st.iter().all(|x| matches!(*x, ABSENT | HANDLED))
    }
}

fn status_name(s: u8) -> &'static str {
    match s {
        ABSENT => "not yet created",
        PENDING => "pending",
        RUNNING => "running",
        FINISHED => "finished",
        HANDLED => "handled",
        _ => "?",
    }
}

#[derive(Debug, Clone, Default, serde::Serialize)]
pub struct ModelResult {
    pub jobs: usize,
    pub conflict_pairs: usize,
    pub items: usize,
    pub states: usize,
    pub transitions: usize,
    pub terminal_states: usize,
    pub max_depth: usize,
    pub capped: bool,
    /// (violation text, action trace from the initial state)
    pub violations: Vec<(String, Vec<String>)>,
    pub max_jobs_in_flight: usize,
    /// size of the dynamic set (jobs whose timing is explored freely in every exploration)
    pub free_jobs: usize,
    pub explorations: usize,
    pub pairs_forced_by_text: usize,
    pub pairs_dynamic: usize,
    pub pairs_needing_a_lagging_static_job: usize,
    /// accesses of the main thread inside handle_success that are not ordered with a job's access to the
    /// same item on some interleaving (text, model trace)
    pub scheduler_access_notes: Vec<(String, Vec<String>)>,
    /// per entry of `violations`: the free set of the exploration that found it (needed to expand the
    /// trace into a guide for the implementation)
    #[serde(skip)]
    pub violation_free: Vec<BTreeSet<usize>>,
}

impl Instance {
    /// Every access version a job can have: at insertion and after each rewrite.
    fn access_versions(&self, j: usize) -> Vec<usize> {
        let mut v = vec![];
        if let Some(a) = self.initial[j] {
            v.push(a);
        }
        for e in &self.effects {
            for (k, a) in e.added.iter().chain(e.rewritten.iter()) {
                if *k == j {
                    v.push(*a);
                }
            }
        }
        v
    }

    /// The jobs whose timing is explored freely: those with `handle_success` effects, the jobs those
    /// effects add / rewrite / complete, the jobs that start hard-blocked (`Access::Unknown`), and the
    /// jobs that observe (by variant counter or specific id) something that is created dynamically.
    /// Every other job is *static*: present from the start with a fixed access and no effects.
    pub fn dynamic_set(&self) -> BTreeSet<usize> {
        let n = self.ids.len();
        let mut set: BTreeSet<usize> = BTreeSet::new();
        let mut dyn_ids: BTreeSet<usize> = BTreeSet::new();
        for j in 0..n {
            let e = &self.effects[j];
            if !(e.added.is_empty() && e.rewritten.is_empty() && e.skipped.is_empty()) {
                set.insert(j);
            }
            for (k, _) in e.added.iter() {
                set.insert(*k);
                dyn_ids.insert(*k);
            }
            for (k, _) in e.rewritten.iter() {
                set.insert(*k);
            }
            for k in e.skipped.iter() {
                set.insert(*k);
                dyn_ids.insert(*k);
            }
            if self.initial[j].is_some_and(|a| self.accs[a] == AccI::Unknown) {
                set.insert(j);
            }
        }
        let dyn_discs: BTreeSet<usize> = dyn_ids.iter().map(|j| self.disc[*j]).collect();
        for j in 0..n {
            for a in self.access_versions(j) {
                if let AccI::Set(deps) = &self.accs[a] {
                    if deps.iter().any(|d| match d {
                        DepI::Inst(i) => dyn_ids.contains(i),
                        DepI::Var(d) => dyn_discs.contains(d),
                    }) {
                        set.insert(j);
                    }
                }
            }
        }
        // also-children are scheduled with their parent
        let with_parents: Vec<usize> = set.iter().filter_map(|j| self.parent[*j]).collect();
        set.extend(with_parents);
        set.retain(|j| self.kind[*j] != Kind::Also);
        set
    }

    /// `forced[p][q]`: by the text of the accesses alone, p has finished whenever q can launch (p is
    /// present from the start and every access version of q names p's id or counter, or one of its
    /// also-children's), closed transitively.
    pub fn statically_forced(&self) -> Vec<Vec<bool>> {
        let n = self.ids.len();
        let mut f = vec![vec![false; n]; n];
        for q in 0..n {
            let versions: Vec<&AccI> = self.access_versions(q).into_iter().map(|a| &self.accs[a]).filter(|a| **a != AccI::Unknown).collect();
            if versions.is_empty() {
                continue;
            }
            for p in 0..n {
                if p == q || self.initial[p].is_none() || self.kind[p] == Kind::Also {
                    continue;
                }
                let names = |d: &DepI| match d {
                    DepI::Inst(i) => *i == p || self.children[p].contains(i),
                    DepI::Var(d) => *d == self.disc[p] || self.children[p].iter().any(|c| self.disc[*c] == *d),
                };
                f[p][q] = versions.iter().all(|v| match v {
                    AccI::All => true,
                    AccI::Set(deps) => deps.iter().any(names),
                    _ => false,
                });
            }
        }
        for k in 0..n {
            for i in 0..n {
                if f[i][k] {
                    for j in 0..n {
                        if f[k][j] {
                            f[i][j] = true;
                        }
                    }
                }
            }
        }
        f
    }
}

/// Exploration of every interleaving of the *free* jobs; every other job finishes and is handled as
/// soon as it has been launched (a real behaviour: a fast worker, a prompt main loop). See the
/// module documentation of `explore_all` for why this loses no violation.
pub fn explore_free(inst: &Instance, free: &BTreeSet<usize>, max_states: usize, res: &mut ModelResult, seen_violation: &mut BTreeSet<String>) {
    let n = inst.ids.len();
    // eager closure: static jobs that run finish at once and are handled at once
    let normalize = |s: &mut State, viols: &mut Vec<String>| {
        loop {
            let mut changed = false;
            for j in 0..n {
                if inst.kind[j] == Kind::Also || free.contains(&j) {
                    continue;
                }
                if s.st[j] == RUNNING {
                    inst.finish(s, j);
                    changed = true;
                }
                if s.st[j] == FINISHED {
                    inst.handle(s, j, viols);
                    changed = true;
                }
            }
            if !changed {
                break;
            }
        }
    };
    let mut s0 = inst.initial_state();
    let mut v0 = vec![];
    normalize(&mut s0, &mut v0);
    let mut index: HashMap<State, u32> = HashMap::new();
    let mut parents: Vec<(u32, String)> = vec![(u32::MAX, String::new())];
    let mut depth: Vec<u32> = vec![0];
    let mut queue: VecDeque<(State, u32)> = VecDeque::new();
    index.insert(s0.clone(), 0);
    queue.push_back((s0, 0));
    let trace_of = |parents: &Vec<(u32, String)>, mut i: u32| {
        let mut t = vec![];
        while i != u32::MAX && parents[i as usize].0 != u32::MAX {
            t.push(parents[i as usize].1.clone());
            i = parents[i as usize].0;
        }
        t.reverse();
        t
    };
    while let Some((s, si)) = queue.pop_front() {
        res.max_depth = res.max_depth.max(depth[si as usize] as usize);
        let in_flight = s.st.iter().filter(|x| **x == RUNNING).count();
        res.max_jobs_in_flight = res.max_jobs_in_flight.max(in_flight);
        if inst.all_done(&s) {
            res.terminal_states += 1;
            continue;
        }
        let mut succ: Vec<(State, String, Vec<String>)> = vec![];
        if s.can_scan {
            let l = inst.launchable(&s);
            let mut v = vec![];
            let busy = (0..n).any(|j| inst.kind[j] != Kind::Also && matches!(s.st[j], RUNNING | FINISHED));
            if l.is_empty() && !busy {
                let blocked: Vec<&str> = (0..n).filter(|j| s.st[*j] == PENDING).map(|j| inst.ids[j].as_str()).take(6).collect();
                v.push(format!("unable-to-proceed: nothing is launchable and nothing is running; blocked: {blocked:?}"));
            }
            let mut t = s.clone();
            for q in &l {
                inst.launch_violations(&t, *q, &mut v);
            }
            for q in &l {
                t.st[*q] = RUNNING;
            }
            t.can_scan = false;
            normalize(&mut t, &mut v);
            let names: Vec<&str> = l.iter().map(|q| inst.ids[*q].as_str()).collect();
            succ.push((t, format!("Scan launches {names:?}"), v));
        }
        for j in free.iter().copied() {
            if s.st[j] == RUNNING {
                let mut t = s.clone();
                inst.finish(&mut t, j);
                succ.push((t, format!("Finish {}", inst.ids[j]), vec![]));
            } else if s.st[j] == FINISHED {
                let mut t = s.clone();
                let mut v = vec![];
                inst.handle(&mut t, j, &mut v);
                normalize(&mut t, &mut v);
                succ.push((t, format!("Handle {}", inst.ids[j]), v));
            }
        }
        if succ.is_empty() && seen_violation.insert("stuck".into()) {
            let mut tr = trace_of(&parents, si);
            tr.push("(no action enabled)".into());
            res.violations.push(("stuck: no action is enabled and jobs are pending".into(), tr));
            res.violation_free.push(free.clone());
        }
        for (t, label, viols) in succ {
            res.transitions += 1;
            for v in viols {
                if !seen_violation.insert(v.clone()) {
                    continue;
                }
                let mut tr = trace_of(&parents, si);
                tr.push(label.clone());
                if v.starts_with("scheduler-access:") {
                    // the main thread is not a compilation step: recorded, not judged (DESIGN.md §2.2b)
                    if res.scheduler_access_notes.len() < 20 {
                        res.scheduler_access_notes.push((v, tr));
                    }
                } else if res.violations.len() < 50 {
                    res.violations.push((v, tr));
                    res.violation_free.push(free.clone());
                }
            }
            if !index.contains_key(&t) {
                if index.len() >= max_states {
                    res.capped = true;
                    continue;
                }
                let ti = index.len() as u32;
                index.insert(t.clone(), ti);
                parents.push((si, label));
                depth.push(depth[si as usize] + 1);
                queue.push_back((t, ti));
            }
        }
    }
    res.states += index.len();
}

/// The whole check. (a) Every interleaving of the dynamic jobs (`dynamic_set`), static jobs eager.
/// (b) For every conflict pair (p before q) of the reference run that is not forced by the text of
/// the accesses (`statically_forced`) and whose p is static: the same exploration with p free as well,
/// so that p can lag for as long as the scheduler lets it.
///
/// Why eager static jobs lose nothing: a violation is "q launches (or a completion is handled) while
/// p has not finished". Whether q can launch is monotone in the progress of every job except for the
/// insertions made by `handle_success` of a dynamic job; a static job s that is slower only delays
/// the jobs that wait for it. If p waits for s, "s slow" is the same as "p slow", which (a)/(b)
/// explore since p is free; if q waits for s, q only launches later; the dynamic jobs are free, so
/// every timing of the insertions is explored.
pub fn explore(inst: &Instance, max_states: usize) -> ModelResult {
    let mut res = ModelResult { jobs: inst.ids.len(), conflict_pairs: inst.n_conflict_pairs, items: inst.n_items, ..Default::default() };
    let mut seen = BTreeSet::new();
    let dynamic = inst.dynamic_set();
    res.free_jobs = dynamic.len();
    explore_free(inst, &dynamic, max_states, &mut res, &mut seen);
    res.explorations = 1;
    let forced = inst.statically_forced();
    let mut extra: BTreeSet<usize> = BTreeSet::new();
    for q in 0..inst.ids.len() {
        for (p, _) in &inst.must_finish_before_launch[q] {
            if forced[*p][q] {
                res.pairs_forced_by_text += 1;
            } else if !dynamic.contains(p) {
                extra.insert(*p);
                res.pairs_needing_a_lagging_static_job += 1;
            } else {
                res.pairs_dynamic += 1;
            }
        }
    }
    for p in extra {
        let mut free = dynamic.clone();
        free.insert(p);
        explore_free(inst, &free, max_states, &mut res, &mut seen);
        res.explorations += 1;
    }
    res
}

#[derive(Debug, Clone, Default, serde::Serialize)]
pub struct ConformStats {
    pub events: usize,
    pub launches: usize,
    pub scans: usize,
    pub handles: usize,
    pub snapshots_compared: usize,
}

/// Replays the event log of an implementation execution against the model. `Err` = the
/// implementation did something the model does not allow (or the other way round): the model is
/// not a faithful abstraction of this code.
pub fn conform(inst: &Instance, log: &[LogEv], complete: bool) -> Result<ConformStats, String> {
    let mut st = ConformStats::default();
    let mut s = inst.initial_state();
    let mut started = false;
    // the implementation's counters, maintained from the events (a worker decrements one counter at a time)
    let mut counts: Vec<usize> = (0..inst.discs.len()).map(|d| inst.count(&s, d)).collect();
    // scan bookkeeping
    let mut scan_lower: Option<BTreeSet<usize>> = None;
    let mut launched_in_scan: BTreeSet<usize> = BTreeSet::new();
    let close_scan = |s: &State, lower: &mut Option<BTreeSet<usize>>, launched: &mut BTreeSet<usize>| -> Result<(), String> {
        if let Some(lo) = lower.take() {
            // everything launchable when the scan began must have been launched, unless it finished being
            // launchable... (statuses only move forward, so launchable-at-start jobs stay launchable)
            for j in &lo {
                if !launched.contains(j) && s.st[*j] == PENDING {
                    return Err(format!("the model says {} was launchable when the scan began, the implementation did not launch it", inst.ids[*j]));
                }
            }
        }
        launched.clear();
        Ok(())
    };
    for ev in log {
        st.events += 1;
        match ev {
            LogEv::Snapshot { about, text } => {
                let snap = parse_snapshot(text)?;
                if about.is_empty() {
                    started = true;
                } else {
                    st.handles += 1;
                }
                // compare the model state with the implementation's view
                for (id, js) in &snap.jobs {
                    let Some(j) = inst.index.get(id) else {
                        return Err(format!("snapshot after {about:?} has a job unknown to the instance: {id}"));
                    };
                    if !Instance::in_jobs_pending(s.st[*j]) {
                        return Err(format!("after {about:?}: {id} is pending in the implementation, {} in the model", status_name(s.st[*j])));
                    }
                    if js.kind != Kind::Also || s.st[*j] == PENDING {
                        let a = &inst.accs[s.acc[*j] as usize];
                        let b = Instance::default_acc_of(inst, &js.access);
                        if *a != b {
                            // the effect of handle_success(about) is not the same function of `about` on this schedule
                            let show = |a: &AccI| match a {
                                AccI::Set(v) => v
                                    .iter()
                                    .map(|d| match d {
                                        DepI::Inst(i) => format!("I:{}", inst.ids.get(*i).cloned().unwrap_or_else(|| "?".into())),
                                        DepI::Var(d) => format!("V:{}", inst.discs.get(*d).cloned().unwrap_or_else(|| "?".into())),
                                    })
                                    .collect::<Vec<_>>()
                                    .join(" "),
                                other => format!("{other:?}"),
                            };
                            return Err(format!("effect-variant: after handle_success({about}) the access of {id} is [{}] on this schedule, [{}] on the reference schedule", show(&b), show(a)));
                        }
                    }
                }
                for j in 0..inst.ids.len() {
                    if Instance::in_jobs_pending(s.st[j]) && !snap.jobs.contains_key(&inst.ids[j]) {
                        return Err(format!("after {about:?}: {} is {} in the model, absent from the implementation's pending jobs", inst.ids[j], status_name(s.st[j])));
                    }
                }
                for (d, c) in &snap.counts {
                    if let Some(di) = inst.discs.iter().position(|x| x == d) {
                        let m = counts[di];
                        if m != *c {
                            return Err(format!("after {about:?}: counter {d} is {c} in the implementation, {m} in the model"));
                        }
                    } else if *c != 0 {
                        return Err(format!("after {about:?}: counter {d} = {c} unknown to the instance"));
                    }
                }
                st.snapshots_compared += 1;
            }
            _ if !started => {}
            LogEv::LoopHead => {
                close_scan(&s, &mut scan_lower, &mut launched_in_scan)?;
                st.scans += 1;
                scan_lower = Some(inst.launchable_with(&s, &counts).into_iter().collect());
            }
            LogEv::Launch { job } => {
                let j = *inst.index.get(job).ok_or_else(|| format!("launch of unknown job {job}"))?;
                if s.st[j] != PENDING {
                    return Err(format!("{job} launched while {} in the model", status_name(s.st[j])));
                }
                if !inst.can_run_with(&s, j, &|d| counts.get(d).copied().unwrap_or(0)) {
                    return Err(format!("{job} launched by the implementation but its dependencies are not fulfilled in the model (access {:?})", inst.accs[s.acc[j] as usize]));
                }
                s.st[j] = RUNNING;
                launched_in_scan.insert(j);
                st.launches += 1;
            }
            LogEv::Dec { job, counter } => {
                // the first decrement of a job is the model's Finish (exec has ended)
                if let Some(j) = inst.index.get(job) {
                    if s.st[*j] == RUNNING {
                        inst.finish(&mut s, *j);
                    }
                }
                match inst.discs.iter().position(|x| x == counter) {
                    Some(d) if counts[d] > 0 => counts[d] -= 1,
                    _ => return Err(format!("{job} decrements counter {counter} which is 0 or unknown in the model")),
                }
            }
            LogEv::ExecEnd { .. } | LogEv::ExecBegin { .. } | LogEv::Access { .. } | LogEv::Send { .. } | LogEv::Received { .. } => {}
            LogEv::HandleSuccess { job } => {
                close_scan(&s, &mut scan_lower, &mut launched_in_scan)?;
                let j = *inst.index.get(job).ok_or_else(|| format!("handle_success of unknown job {job}"))?;
                if s.st[j] == RUNNING {
                    // a job that failed does not decrement; not expected on a valid source
                    return Err(format!("handle_success({job}) before the job decremented its counters"));
                }
                if s.st[j] != FINISHED {
                    return Err(format!("handle_success({job}) while the job is {} in the model", status_name(s.st[j])));
                }
                let before: Vec<u8> = s.st.clone();
                let mut v = vec![];
                inst.handle(&mut s, j, &mut v);
                // main's own counter updates: +1 per inserted id, -1 per id it completes without running
                for k in 0..inst.ids.len() {
                    if before[k] == ABSENT && s.st[k] == PENDING {
                        counts[inst.disc[k]] += 1;
                    } else if before[k] == PENDING && s.st[k] == HANDLED && k != j && inst.parent[k] != Some(j) {
                        counts[inst.disc[k]] = counts[inst.disc[k]].saturating_sub(1);
                    }
                }
                // property violations on this path are the explorer's business; conformance only tracks state
            }
        }
    }
    if !complete {
        // an execution abandoned at a visited state: its prefix conformed
        return Ok(st);
    }
    close_scan(&s, &mut scan_lower, &mut launched_in_scan)?;
    if !inst.all_done(&s) {
        let left: Vec<&str> = (0..inst.ids.len()).filter(|j| Instance::in_jobs_pending(s.st[*j])).map(|j| inst.ids[j].as_str()).take(5).collect();
        return Err(format!("the log ends with jobs still pending in the model: {left:?}"));
    }
    Ok(st)
}

impl Instance {
    /// `Acc` → `AccI` without interning (for comparisons).
    fn default_acc_of(inst: &Instance, a: &Acc) -> AccI {
        match a {
            Acc::None => AccI::None,
            Acc::Unknown => AccI::Unknown,
            Acc::All => AccI::All,
            Acc::Set(v) => AccI::Set(
                v.iter()
                    .map(|d| match d {
                        Dep::Inst(id) => DepI::Inst(inst.index.get(id).copied().unwrap_or(usize::MAX)),
                        Dep::Var(d) => DepI::Var(inst.discs.iter().position(|x| x == d).unwrap_or(usize::MAX)),
                    })
                    .collect(),
            ),
        }
    }
}

impl Instance {
    /// Human-readable dump (diagnostics).
    pub fn describe(&self) -> String {
        let mut out = String::new();
        let fmt_acc = |a: &AccI| match a {
            AccI::None => "None".to_string(),
            AccI::Unknown => "Unknown".to_string(),
            AccI::All => "All".to_string(),
            AccI::Set(v) => v
                .iter()
                .map(|d| match d {
                    DepI::Inst(i) if *i == usize::MAX => "I:?".to_string(),
                    DepI::Inst(i) => format!("I:{}", self.ids[*i]),
                    DepI::Var(d) => format!("V:{}", self.discs.get(*d).cloned().unwrap_or_default()),
                })
                .collect::<Vec<_>>()
                .join(" "),
        };
        for j in 0..self.ids.len() {
            let e = &self.effects[j];
            out.push_str(&format!(
                "{:3} {:?} {} disc={} init={} parent={:?} adds={:?} rewrites={:?} skips={:?} before-launch={:?}\n",
                j,
                self.kind[j],
                self.ids[j],
                self.discs.get(self.disc[j]).cloned().unwrap_or_default(),
                self.initial[j].map(|a| fmt_acc(&self.accs[a])).unwrap_or_else(|| "(absent)".into()),
                self.parent[j].map(|p| self.ids[p].clone()),
                e.added.iter().map(|(k, a)| format!("{}[{}]", self.ids[*k], fmt_acc(&self.accs[*a]))).collect::<Vec<_>>(),
                e.rewritten.iter().map(|(k, a)| format!("{}[{}]", self.ids[*k], fmt_acc(&self.accs[*a]))).collect::<Vec<_>>(),
                e.skipped.iter().map(|k| self.ids[*k].clone()).collect::<Vec<_>>(),
                self.must_finish_before_launch[j].iter().map(|(p, _)| self.ids[*p].clone()).collect::<BTreeSet<_>>(),
            ));
        }
        out
    }
}


// ------------------------------------------------------------------ model traces → implementation (guided replay)

impl Instance {
    fn normalize_recording(&self, free: &BTreeSet<usize>, s: &mut State, fin: &mut Vec<usize>, batch: &mut Vec<usize>) {
        let n = self.ids.len();
        let mut sink = vec![];
        loop {
            let mut changed = false;
            for j in 0..n {
                if self.kind[j] == Kind::Also || free.contains(&j) {
                    continue;
                }
                if s.st[j] == RUNNING {
                    self.finish(s, j);
                    fin.push(j);
                    changed = true;
                }
                if s.st[j] == FINISHED {
                    self.handle(s, j, &mut sink);
                    batch.push(j);
                    changed = true;
                }
            }
            if !changed {
                break;
            }
        }
    }

    /// Turns a trace of the model (labels as produced by `explore_free`, found with the free set `free`)
    /// into a guide for the controlled scheduler: the static jobs that the model finishes and handles
    /// eagerly after a scan become explicit `Finish` steps and members of the next batch; within one
    /// segment between two scans every `Finish` is moved before the batch of `Handle`s (a task's
    /// decrements commute with the main thread's `handle_success`, which only changes scheduler state
    /// that the next scan reads).
    pub fn guide_of(&self, free: &BTreeSet<usize>, labels: &[String]) -> Result<Vec<crate::Guide>, String> {
        use crate::Guide;
        let find = |name: &str| self.ids.iter().position(|i| i == name).ok_or_else(|| format!("unknown job {name} in a model trace"));
        let mut s = self.initial_state();
        let (mut fin, mut batch): (Vec<usize>, Vec<usize>) = (vec![], vec![]);
        self.normalize_recording(free, &mut s, &mut fin, &mut batch);
        let mut out = vec![];
        let flush = |out: &mut Vec<Guide>, fin: &mut Vec<usize>, batch: &mut Vec<usize>| {
            for f in fin.drain(..) {
                out.push(Guide::Finish(self.ids[f].clone()));
            }
            if !batch.is_empty() {
                out.push(Guide::Batch(batch.drain(..).map(|j| self.ids[j].clone()).collect()));
            }
        };
        let mut sink = vec![];
        for l in labels {
            if l.starts_with("Scan launches") {
                flush(&mut out, &mut fin, &mut batch);
                let launch = self.launchable(&s);
                out.push(Guide::Scan(launch.iter().map(|q| self.ids[*q].clone()).collect()));
                for q in &launch {
                    s.st[*q] = RUNNING;
                }
                s.can_scan = false;
                self.normalize_recording(free, &mut s, &mut fin, &mut batch);
            } else if let Some(j) = l.strip_prefix("Finish ") {
                let j = find(j)?;
                self.finish(&mut s, j);
                fin.push(j);
            } else if let Some(j) = l.strip_prefix("Handle ") {
                let j = find(j)?;
                self.handle(&mut s, j, &mut sink);
                batch.push(j);
                self.normalize_recording(free, &mut s, &mut fin, &mut batch);
            } else if l.starts_with('(') {
                // "(no action enabled)"
            } else {
                return Err(format!("unknown model trace label {l}"));
            }
        }
        flush(&mut out, &mut fin, &mut batch);
        Ok(out)
    }
}

#[derive(Debug, Clone, Default, serde::Serialize)]
pub struct CoverStats {
    pub states: usize,
    pub distinct_labels: usize,
    pub labels_covered: usize,
    pub traces: usize,
    pub capped: bool,
}

/// A set of model traces (label lists, from the initial state) that between them take every distinct
/// transition label reachable in the exploration with the free set `free` — every `Finish j`, every
/// `Handle j`, every distinct launch set of a `Scan` — chosen greedily, longest trace first, at most
/// `max_traces` of them. Breadth-first, so each label is reached by a shortest trace.
pub fn cover_traces(inst: &Instance, free: &BTreeSet<usize>, max_states: usize, max_traces: usize) -> (Vec<Vec<String>>, CoverStats) {
    let n = inst.ids.len();
    let mut sink = vec![];
    let norm = |s: &mut State, sink: &mut Vec<String>| loop {
        let mut changed = false;
        for j in 0..n {
            if inst.kind[j] == Kind::Also || free.contains(&j) {
                continue;
            }
            if s.st[j] == RUNNING {
                inst.finish(s, j);
                changed = true;
            }
            if s.st[j] == FINISHED {
                inst.handle(s, j, sink);
                changed = true;
            }
        }
        if !changed {
            break;
        }
    };
    let mut s0 = inst.initial_state();
    norm(&mut s0, &mut sink);
    let mut index: HashMap<State, u32> = HashMap::new();
    let mut parents: Vec<(u32, String)> = vec![(u32::MAX, String::new())];
    let mut queue: VecDeque<(State, u32)> = VecDeque::new();
    index.insert(s0.clone(), 0);
    queue.push_back((s0, 0));
    // label -> (state it is taken from) for its first (shortest) occurrence
    let mut first: Vec<(String, u32)> = vec![];
    let mut seen_label: BTreeSet<String> = BTreeSet::new();
    let mut stats = CoverStats::default();
    while let Some((s, si)) = queue.pop_front() {
        if inst.all_done(&s) {
            continue;
        }
        let mut succ: Vec<(State, String)> = vec![];
        if s.can_scan {
            let l = inst.launchable(&s);
            let mut t = s.clone();
            for q in &l {
                t.st[*q] = RUNNING;
            }
            t.can_scan = false;
            norm(&mut t, &mut sink);
            let names: Vec<&str> = l.iter().map(|q| inst.ids[*q].as_str()).collect();
            succ.push((t, format!("Scan launches {names:?}")));
        }
        for j in free.iter().copied() {
            if s.st[j] == RUNNING {
                let mut t = s.clone();
                inst.finish(&mut t, j);
                succ.push((t, format!("Finish {}", inst.ids[j])));
            } else if s.st[j] == FINISHED {
                let mut t = s.clone();
                inst.handle(&mut t, j, &mut sink);
                norm(&mut t, &mut sink);
                succ.push((t, format!("Handle {}", inst.ids[j])));
            }
        }
        for (t, label) in succ {
            if seen_label.insert(label.clone()) {
                first.push((label.clone(), si));
            }
            if !index.contains_key(&t) {
                if index.len() >= max_states {
                    stats.capped = true;
                    continue;
                }
                let ti = index.len() as u32;
                index.insert(t.clone(), ti);
                parents.push((si, label));
                queue.push_back((t, ti));
            }
        }
    }
    stats.states = index.len();
    stats.distinct_labels = first.len();
    let trace_of = |mut i: u32| {
        let mut t = vec![];
        while i != u32::MAX && parents[i as usize].0 != u32::MAX {
            t.push(parents[i as usize].1.clone());
            i = parents[i as usize].0;
        }
        t.reverse();
        t
    };
    let mut cands: Vec<Vec<String>> = first
        .iter()
        .map(|(l, si)| {
            let mut t = trace_of(*si);
            t.push(l.clone());
            t
        })
        .collect();
    cands.sort_by(|a, b| b.len().cmp(&a.len()).then(a.cmp(b)));
    let mut covered: BTreeSet<String> = BTreeSet::new();
    let mut out = vec![];
    for t in cands {
        if out.len() >= max_traces {
            break;
        }
        if t.iter().any(|l| !covered.contains(l)) {
            covered.extend(t.iter().cloned());
            out.push(t);
        }
    }
    stats.labels_covered = covered.len();
    stats.traces = out.len();
    (out, stats)
}
