//! Every table that is indexed by glyph id agrees with maxp.numGlyphs. Sizes are computed
//! on the raw table bytes (read-fonts would silently shorten an array that does not fit).
//!
//! Codes: `numglyphs:loca`, `numglyphs:hhea`, `numglyphs:hmtx`, `numglyphs:vhea`,
//! `numglyphs:vmtx`, `numglyphs:post`, `post-names`, `numglyphs:gvar`, `numglyphs:HVAR`,
//! `numglyphs:VVAR`.

use crate::{Issues, tables::Font};
use skrifa::raw::{ReadError, tables::variations::DeltaSetIndexMap, tables::variations::ItemVariationStore};

pub fn check_counts(font: &Font, issues: &mut Issues) {
    let Some(num_glyphs) = font.num_glyphs.map(|n| n as usize) else { return };
    if num_glyphs == 0 {
        issues.add("numglyphs:maxp", "maxp.numGlyphs is 0 (glyph 0, .notdef, is required)".into());
    }

    // loca: numGlyphs + 1 offsets
    if let (Some(loca), Some(is_long)) = (font.raw(b"loca"), font.loca_is_long()) {
        let size = if is_long { 4 } else { 2 };
        if loca.len() != (num_glyphs + 1) * size {
            issues.add(
                "numglyphs:loca",
                format!("loca has {} bytes = {} offsets of {size} bytes; numGlyphs + 1 = {}", loca.len(), loca.len() as f64 / size as f64, num_glyphs + 1),
            );
        }
    }

    // hmtx / vmtx: n long metrics + (numGlyphs - n) side bearings
    let metrics = |issues: &mut Issues, header: &str, table: &str, n_long: Option<u16>, bytes: Option<&[u8]>| {
        let Some(n_long) = n_long.map(|n| n as usize) else { return };
        if n_long < 1 || n_long > num_glyphs {
            issues.add(&format!("numglyphs:{header}"), format!("{header} declares {n_long} long metrics, numGlyphs is {num_glyphs}"));
            return;
        }
        let Some(bytes) = bytes else { return };
        let want = 4 * n_long + 2 * (num_glyphs - n_long);
        if bytes.len() != want {
            issues.add(
                &format!("numglyphs:{table}"),
                format!("{table} has {} bytes; {n_long} long metrics + {} side bearings need {want}", bytes.len(), num_glyphs - n_long),
            );
        }
    };
    metrics(issues, "hhea", "hmtx", font.hhea.as_ref().map(|h| h.number_of_h_metrics()), font.raw(b"hmtx"));
    metrics(issues, "vhea", "vmtx", font.vhea.as_ref().map(|h| h.number_of_long_ver_metrics()), font.raw(b"vmtx"));

    if let Some(post) = font.raw(b"post") {
        check_post(post, num_glyphs, issues);
    }

    if let Some(gvar) = &font.gvar {
        if gvar.glyph_count() as usize != num_glyphs {
            issues.add("numglyphs:gvar", format!("gvar.glyphCount is {}, numGlyphs is {num_glyphs}", gvar.glyph_count()));
        }
    }

    if let Some(hvar) = &font.hvar {
        let maps = [("advance", hvar.advance_width_mapping()), ("lsb", hvar.lsb_mapping()), ("rsb", hvar.rsb_mapping())];
        check_metric_variations("HVAR", hvar.item_variation_store(), &maps, num_glyphs, issues);
    }
    if let Some(vvar) = &font.vvar {
        let maps = [
            ("advance", vvar.advance_height_mapping()),
            ("tsb", vvar.tsb_mapping()),
            ("bsb", vvar.bsb_mapping()),
            ("vorg", vvar.v_org_mapping()),
        ];
        check_metric_variations("VVAR", vvar.item_variation_store(), &maps, num_glyphs, issues);
    }
}

/// HVAR/VVAR: with a DeltaSetIndexMap, glyph ids beyond mapCount - 1 use the last entry, so
/// 1 <= mapCount <= numGlyphs; without an advance map glyph id is the inner index of
/// subtable 0, whose itemCount must therefore be numGlyphs.
fn check_metric_variations(
    table: &str,
    store: Result<ItemVariationStore, ReadError>,
    maps: &[(&str, Option<Result<DeltaSetIndexMap, ReadError>>)],
    num_glyphs: usize,
    issues: &mut Issues,
) {
    for (what, map) in maps {
        let Some(Ok(map)) = map else { continue };
        let count = match map {
            DeltaSetIndexMap::Format0(m) => m.map_count() as usize,
            DeltaSetIndexMap::Format1(m) => m.map_count() as usize,
        };
        if count < 1 || count > num_glyphs {
            issues.add(&format!("numglyphs:{table}"), format!("{table} {what} map has {count} entries, numGlyphs is {num_glyphs}"));
        }
    }
    let has_advance_map = matches!(maps.first(), Some((_, Some(_))));
    if !has_advance_map {
        if let Ok(store) = store {
            let first = store.item_variation_data().get(0);
            let items = match first {
                Some(Ok(data)) => data.item_count() as usize,
                _ => 0,
            };
            if items != num_glyphs {
                issues.add(
                    &format!("numglyphs:{table}"),
                    format!("{table} has no advance map, so glyph id indexes subtable 0 directly; it has {items} items, numGlyphs is {num_glyphs}"),
                );
            }
        }
    }
}

/// post: header is 32 bytes; version 2.0 adds numGlyphs, glyphNameIndex[numGlyphs] and
/// Pascal strings; an index >= 258 names string number (index - 258).
fn check_post(post: &[u8], num_glyphs: usize, issues: &mut Issues) {
    if post.len() < 32 {
        return; // reported as read:post
    }
    let version = u32::from_be_bytes([post[0], post[1], post[2], post[3]]);
    match version {
        0x0001_0000 | 0x0003_0000 | 0x0002_5000 => {}
        0x0002_0000 => {
            if post.len() < 34 {
                issues.add("numglyphs:post", "post version 2.0 without numGlyphs".into());
                return;
            }
            let n = u16::from_be_bytes([post[32], post[33]]) as usize;
            if n != num_glyphs {
                issues.add("numglyphs:post", format!("post.numGlyphs is {n}, numGlyphs is {num_glyphs}"));
            }
            let index_end = 34 + 2 * n;
            if post.len() < index_end {
                issues.add("post-names", format!("post has {} bytes, glyphNameIndex[{n}] ends at {index_end}", post.len()));
                return;
            }
            // count the Pascal strings
            let (mut at, mut strings) = (index_end, 0usize);
            while at < post.len() {
                let len = post[at] as usize;
                if at + 1 + len > post.len() {
                    issues.add("post-names", format!("string {strings} at offset {at} (length {len}) runs past the end of post"));
                    break;
                }
                at += 1 + len;
                strings += 1;
            }
            for gid in 0..n {
                let index = u16::from_be_bytes([post[34 + 2 * gid], post[35 + 2 * gid]]) as usize;
                if index >= 258 && index - 258 >= strings {
                    issues.add("post-names", format!("glyph {gid} uses name index {index}, but there are only {strings} strings"));
                }
            }
        }
        other => issues.add("post-version", format!("post version 0x{other:08X} is not defined")),
    }
}
