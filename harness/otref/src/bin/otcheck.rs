//! `otcheck [--dump] <font>...` — run the checker on font files (debugging aid).
use otref::{sfnt, tables, walk};

fn main() {
    let args: Vec<String> = std::env::args().skip(1).collect();
    let dump = args.iter().any(|a| a == "--dump");
    let mut bad = 0;
    for path in args.iter().filter(|a| *a != "--dump") {
        let bytes = std::fs::read(path).unwrap_or_else(|e| panic!("{path}: {e}"));
        if dump {
            let mut issues = otref::Issues::default();
            let container = sfnt::check_container(&bytes, &mut issues);
            let font = tables::Font::open(&container, &mut issues);
            for record in &container.records {
                println!("==== {}", record.tag_str());
                let Some(data) = container.table(&record.tag) else { continue };
                match tables::open_for_traversal(&record.tag, skrifa::raw::FontData::new(data), &font) {
                    Some(Ok(table)) => {
                        let mut d = walk::Dump { depth: 0, out: String::new() };
                        walk::Walker::new(&mut d).table(&*table);
                        print!("{}", d.out);
                    }
                    Some(Err(e)) => println!("cannot open: {e}"),
                    None => println!("(no reader)"),
                }
            }
            continue;
        }
        let t = std::time::Instant::now();
        let (summary, issues) = otref::check_font(&bytes);
        println!("{path}: {} issues in {:.1} ms", issues.len(), t.elapsed().as_secs_f64() * 1e3);
        println!("  {}", serde_json::to_string(&summary).unwrap());
        for i in &issues {
            println!("  [{}] {}", i.code, i.detail);
            bad += 1;
        }
    }
    std::process::exit(if bad > 0 { 1 } else { 0 });
}
