//! Required tables, opening of every table with read-fonts, and the full traversal.

use crate::{
    Issues, Summary,
    refs::{DigestOnly, RefChecker},
    sfnt::Sfnt,
    walk,
};
use skrifa::raw::{
    FontData, FontRead, ReadError,
    tables::{
        avar::Avar, base::Base, cmap::Cmap, colr::Colr, cpal::Cpal, fvar::Fvar, gasp::Gasp,
        gdef::Gdef, glyf::Glyf, gpos::Gpos, gsub::Gsub, gvar::Gvar, head::Head, hhea::Hhea,
        hmtx::Hmtx, hvar::Hvar, loca::Loca, maxp::Maxp, meta::Meta, mvar::Mvar, name::Name,
        os2::Os2, post::Post, stat::Stat, vhea::Vhea, vmtx::Vmtx, vvar::Vvar,
    },
    traversal::SomeTable,
};

/// Tables every TrueType-flavoured OpenType font must have (OpenType spec, "Required
/// Tables" and "Tables Related to TrueType Outlines").
pub const REQUIRED: [&[u8; 4]; 10] =
    [b"cmap", b"head", b"hhea", b"hmtx", b"maxp", b"name", b"OS/2", b"post", b"glyf", b"loca"];

pub fn check_required(sfnt: &Sfnt, issues: &mut Issues) {
    for tag in REQUIRED {
        if !sfnt.has(tag) {
            let t = crate::sfnt::tag_str(tag);
            issues.add(&format!("missing:{t}"), format!("required table '{t}' is absent"));
        }
    }
    if sfnt.has(b"fvar") {
        // A variable font without STAT is rejected by current platforms (spec: "required in
        // variable fonts"); fontc always writes one.
        if !sfnt.has(b"STAT") {
            issues.add("missing:STAT", "fvar is present but STAT is absent".into());
        }
    } else {
        // tables that only make sense with fvar
        for tag in [b"avar", b"gvar", b"HVAR", b"VVAR", b"MVAR", b"cvar"] {
            if sfnt.has(tag) {
                let t = crate::sfnt::tag_str(tag);
                issues.add(&format!("orphan:{t}"), format!("'{t}' is present but there is no fvar"));
            }
        }
    }
    // pairs that are useless alone
    for (a, b) in [(b"vhea", b"vmtx"), (b"vmtx", b"vhea"), (b"COLR", b"CPAL"), (b"VVAR", b"vmtx")] {
        if sfnt.has(a) && !sfnt.has(b) {
            let (ta, tb) = (crate::sfnt::tag_str(a), crate::sfnt::tag_str(b));
            // COLR v1 fonts may be CPAL-less in theory; v0 layers always index a palette
            issues.add(&format!("missing:{tb}"), format!("'{ta}' is present but '{tb}' is absent"));
        }
    }
}

/// Fixed values of head that every reader relies on.
pub fn check_head(font: &Font, issues: &mut Issues) {
    let Some(head) = &font.head else { return };
    if head.magic_number() != 0x5F0F3CF5 {
        issues.add("head-magic", format!("head.magicNumber is 0x{:08X}", head.magic_number()));
    }
    if !(16..=16384).contains(&head.units_per_em()) {
        issues.add("head-upem", format!("head.unitsPerEm is {}", head.units_per_em()));
    }
    if !(0..=1).contains(&head.index_to_loc_format()) {
        issues.add("head-loca-format", format!("head.indexToLocFormat is {}", head.index_to_loc_format()));
    }
}

/// The typed view of the tables the other modules need. A table that is absent or cannot
/// be opened is `None` (an issue has been filed in the latter case).
pub struct Font<'a> {
    pub sfnt: &'a Sfnt<'a>,
    pub num_glyphs: Option<u16>,
    pub head: Option<Head<'a>>,
    pub hhea: Option<Hhea<'a>>,
    pub vhea: Option<Vhea<'a>>,
    pub maxp: Option<Maxp<'a>>,
    pub name: Option<Name<'a>>,
    pub post: Option<Post<'a>>,
    pub cmap: Option<Cmap<'a>>,
    pub fvar: Option<Fvar<'a>>,
    pub avar: Option<Avar<'a>>,
    pub gvar: Option<Gvar<'a>>,
    pub hvar: Option<Hvar<'a>>,
    pub vvar: Option<Vvar<'a>>,
    pub mvar: Option<Mvar<'a>>,
    pub stat: Option<Stat<'a>>,
    pub gdef: Option<Gdef<'a>>,
    pub gsub: Option<Gsub<'a>>,
    pub gpos: Option<Gpos<'a>>,
    pub colr: Option<Colr<'a>>,
    pub cpal: Option<Cpal<'a>>,
}

fn open<'a, T: FontRead<'a>>(sfnt: &Sfnt<'a>, tag: &[u8; 4], issues: &mut Issues) -> Option<T> {
    let data = sfnt.table(tag)?;
    match T::read(FontData::new(data)) {
        Ok(t) => Some(t),
        Err(e) => {
            let t = crate::sfnt::tag_str(tag);
            issues.add(&format!("read:{t}"), format!("'{t}' ({} bytes) cannot be opened: {e}", data.len()));
            None
        }
    }
}

impl<'a> Font<'a> {
    pub fn open(sfnt: &'a Sfnt<'a>, issues: &mut Issues) -> Font<'a> {
        let maxp: Option<Maxp> = open(sfnt, b"maxp", issues);
        Font {
            sfnt,
            num_glyphs: maxp.as_ref().map(|m| m.num_glyphs()),
            head: open(sfnt, b"head", issues),
            hhea: open(sfnt, b"hhea", issues),
            vhea: open(sfnt, b"vhea", issues),
            maxp,
            name: open(sfnt, b"name", issues),
            post: open(sfnt, b"post", issues),
            cmap: open(sfnt, b"cmap", issues),
            fvar: open(sfnt, b"fvar", issues),
            avar: open(sfnt, b"avar", issues),
            gvar: open(sfnt, b"gvar", issues),
            hvar: open(sfnt, b"HVAR", issues),
            vvar: open(sfnt, b"VVAR", issues),
            mvar: open(sfnt, b"MVAR", issues),
            stat: open(sfnt, b"STAT", issues),
            gdef: open(sfnt, b"GDEF", issues),
            gsub: open(sfnt, b"GSUB", issues),
            gpos: open(sfnt, b"GPOS", issues),
            colr: open(sfnt, b"COLR", issues),
            cpal: open(sfnt, b"CPAL", issues),
        }
    }

    /// Raw bytes of a table.
    pub fn raw(&self, tag: &[u8; 4]) -> Option<&'a [u8]> {
        self.sfnt.table(tag)
    }

    pub fn loca_is_long(&self) -> Option<bool> {
        self.head.as_ref().map(|h| h.index_to_loc_format() == 1)
    }
}

fn boxed<'a, T: FontRead<'a> + SomeTable<'a> + 'a>(
    data: FontData<'a>,
) -> Result<Box<dyn SomeTable<'a> + 'a>, ReadError> {
    T::read(data).map(|t| Box::new(t) as Box<dyn SomeTable<'a> + 'a>)
}

/// Open a table for traversal. `None`: this checker has no reader for the tag.
pub fn open_for_traversal<'a>(
    tag: &[u8; 4],
    data: FontData<'a>,
    font: &Font,
) -> Option<Result<Box<dyn SomeTable<'a> + 'a>, ReadError>> {
    let missing = |what: &'static str| Err(ReadError::MalformedData(what));
    Some(match tag {
        b"head" => boxed::<Head>(data),
        b"hhea" => boxed::<Hhea>(data),
        b"vhea" => boxed::<Vhea>(data),
        b"maxp" => boxed::<Maxp>(data),
        b"OS/2" => boxed::<Os2>(data),
        b"name" => boxed::<Name>(data),
        b"post" => boxed::<Post>(data),
        b"cmap" => boxed::<Cmap>(data),
        b"glyf" => boxed::<Glyf>(data),
        b"gasp" => boxed::<Gasp>(data),
        b"meta" => boxed::<Meta>(data),
        b"fvar" => boxed::<Fvar>(data),
        b"avar" => boxed::<Avar>(data),
        b"gvar" => boxed::<Gvar>(data),
        b"HVAR" => boxed::<Hvar>(data),
        b"VVAR" => boxed::<Vvar>(data),
        b"MVAR" => boxed::<Mvar>(data),
        b"STAT" => boxed::<Stat>(data),
        b"GDEF" => boxed::<Gdef>(data),
        b"GSUB" => boxed::<Gsub>(data),
        b"GPOS" => boxed::<Gpos>(data),
        b"BASE" => boxed::<Base>(data),
        b"COLR" => boxed::<Colr>(data),
        b"CPAL" => boxed::<Cpal>(data),
        b"hmtx" => match font.hhea.as_ref() {
            Some(hhea) => Hmtx::read(data, hhea.number_of_h_metrics()).map(|t| Box::new(t) as _),
            None => missing("hmtx needs hhea.numberOfHMetrics"),
        },
        b"vmtx" => match font.vhea.as_ref() {
            Some(vhea) => Vmtx::read(data, vhea.number_of_long_ver_metrics()).map(|t| Box::new(t) as _),
            None => missing("vmtx needs vhea.numOfLongVerMetrics"),
        },
        b"loca" => match font.loca_is_long() {
            Some(is_long) => Loca::read(data, is_long).map(|t| Box::new(t) as _),
            None => missing("loca needs head.indexToLocFormat"),
        },
        _ => return None,
    })
}

/// Tables whose last array runs "to the end of the table" in read-fonts. For these the
/// truncation probe below is meaningless; their sizes are checked by hand instead
/// (`counts`, `glyphs`, `cmap`, `variations::check_gvar`).
const REST_OF_DATA_TABLES: [&[u8; 4]; 8] =
    [b"hmtx", b"vmtx", b"loca", b"glyf", b"gvar", b"post", b"cmap", b"avar"];

/// How far past its end a table is extended for the truncation probe: more than the largest
/// array a 16-bit count can describe (65535 records of 64 bytes).
const PROBE_PADDING: usize = 4 << 20;

/// Traverse every table completely.
///
/// read-fonts 0.40 reads lazily and forgivingly: an array whose declared length does not
/// fit in the table's bytes is silently returned *empty*, a trailing scalar as 0. Offsets
/// that point outside the table do produce an error, truncated arrays do not. To surface
/// them each table is traversed twice — as it is in the file, and as a copy followed by
/// `PROBE_PADDING` bytes of 0xFF. A structure that lies completely inside the table reads
/// identically in both runs; one that reaches past the end reads differently (the array is
/// no longer empty, the scalar no longer 0). Any difference in the visited stream is
/// reported as `truncated:<tag>`.
pub fn traverse_all(sfnt: &Sfnt, font: &Font, checker: &mut RefChecker, summary: &mut Summary) {
    // the probe buffer is kept per thread: [table bytes][0xFF padding]; only the front changes
    let mut probe_buf: Vec<u8> = PROBE_BUFFER.with(|b| std::mem::take(&mut *b.borrow_mut()));
    for record in &sfnt.records {
        let tag = record.tag;
        let t = record.tag_str();
        let Some(bytes) = sfnt.table(&tag) else { continue }; // out of bounds: already reported
        let Some(opened) = open_for_traversal(&tag, FontData::new(bytes), font) else {
            summary.untraversed_tables.push(t);
            continue;
        };
        let table = match opened {
            Ok(table) => table,
            Err(e) => {
                checker
                    .issues
                    .add(&format!("read:{t}"), format!("'{t}' ({} bytes) cannot be opened: {e}", bytes.len()));
                continue;
            }
        };

        // run 1: the table as it is; checks references, reports read errors
        // (read-fonts' traversal code is not hardened: on malformed data it can panic)
        checker.begin_table(&t);
        let walked = std::panic::catch_unwind(std::panic::AssertUnwindSafe(|| {
            let mut walker = walk::Walker::new(checker);
            walker.table(&*table);
            walker.nodes()
        }));
        let Ok(nodes) = walked else {
            checker.issues.add(&format!("reader-panic:{t}"), format!("read-fonts panicked while traversing '{t}' ({} bytes)", bytes.len()));
            continue;
        };
        summary.fields_traversed += nodes;

        // run 2: the truncation probe
        if REST_OF_DATA_TABLES.contains(&&tag) || checker.digest.errors > 0 {
            continue;
        }
        if probe_buf.len() < bytes.len() + PROBE_PADDING {
            probe_buf.resize(bytes.len() + PROBE_PADDING, 0xFF);
        }
        probe_buf[..bytes.len()].copy_from_slice(bytes);
        let padded_bytes = &probe_buf[..bytes.len() + PROBE_PADDING];
        if let Some(Ok(padded)) = open_for_traversal(&tag, FontData::new(padded_bytes), font) {
            let mut probe = DigestOnly::default();
            let probed = std::panic::catch_unwind(std::panic::AssertUnwindSafe(|| {
                let mut walker = walk::Walker::new(&mut probe);
                walker.set_node_limit(nodes * 2 + 1000);
                walker.table(&*padded);
            }));
            if probed.is_err() || probe.digest != checker.digest.digest {
                let at = first_difference(&*table, &*padded);
                checker.issues.add(
                    &format!("truncated:{t}"),
                    format!("'{t}' ({} bytes) declares data beyond its end; first structure affected: {at}", bytes.len()),
                );
            }
        }
        probe_buf[..bytes.len()].fill(0xFF);
    }
    PROBE_BUFFER.with(|b| *b.borrow_mut() = probe_buf);
}

thread_local! {
    static PROBE_BUFFER: std::cell::RefCell<Vec<u8>> = const { std::cell::RefCell::new(Vec::new()) };
}

/// Where two traversals of the "same" table first differ (diagnostics only).
fn first_difference<'a, 'b>(a: &(dyn SomeTable<'a> + 'a), b: &(dyn SomeTable<'b> + 'b)) -> String {
    fn trace<'t>(table: &(dyn SomeTable<'t> + 't)) -> String {
        let mut dump = walk::Dump { depth: 0, out: String::new() };
        let _ = std::panic::catch_unwind(std::panic::AssertUnwindSafe(|| {
            let mut walker = walk::Walker::new(&mut dump);
            walker.set_node_limit(200_000);
            walker.table(table);
        }));
        dump.out
    }
    let (ta, tb) = (trace(a), trace(b));
    let mut context: Vec<&str> = vec![];
    for (la, lb) in ta.lines().zip(tb.lines()) {
        if la != lb {
            return format!("{} > {}", context.join(" > "), la.trim());
        }
        let trimmed = la.trim();
        if let Some(name) = trimmed.strip_suffix(" {") {
            context.push(name);
        } else if trimmed == "}" {
            context.pop();
        }
    }
    format!("{} (one traversal is a prefix of the other)", context.join(" > "))
}
