//! Variation data: every table agrees with fvar on the number of axes; every
//! ItemVariationStore is internally in range; every DeltaSetIndexMap entry and MVAR record
//! points at an existing delta set; gvar's per-glyph tuple headers add up.
//!
//! Codes: `axis-count:<TABLE>`, `fvar-sizes`, `stat-axis-missing`, `avar-bounds`,
//! `region-index:<TABLE>`, `region-order:<TABLE>`, `ivd-word-count:<TABLE>`, `ivd-size:<TABLE>`,
//! `varidx-outer:<TABLE>`, `varidx-inner:<TABLE>`, `gvar-offsets`, `gvar-shared-tuples`,
//! `gvar-shared-index`, `gvar-tuple-headers`, `gvar-data-size`.

use crate::{Issues, RefCount, tables::Font};
use skrifa::raw::{
    ReadError,
    tables::variations::{DeltaSetIndexMap, ItemVariationStore},
};

/// (outer, inner) that means "no variation data" wherever a delta-set index is stored.
pub const NO_VARIATION: (u32, u32) = (0xFFFF, 0xFFFF);

/// itemCount of each ItemVariationData subtable (`None`: null offset or unreadable).
pub type StoreShape = Vec<Option<u32>>;

pub fn check_variations(font: &Font, issues: &mut Issues, refs: &mut RefCount) {
    let Some(fvar) = &font.fvar else { return };
    let axes = fvar.axis_count() as u32;
    if axes == 0 {
        issues.add("axis-count:fvar", "fvar.axisCount is 0".into());
    }

    // fvar's own record sizes
    let instance_size = fvar.instance_size() as u32;
    if fvar.axis_size() != 20 || (instance_size != 4 + 4 * axes && instance_size != 6 + 4 * axes) {
        issues.add(
            "fvar-sizes",
            format!("fvar.axisSize = {} (must be 20), instanceSize = {instance_size} (must be {} or {})", fvar.axis_size(), 4 + 4 * axes, 6 + 4 * axes),
        );
    }

    let mut axis_count = |table: &str, got: u32| {
        refs.add(&format!("axis-count/{table}"), 1);
        if got != axes {
            issues.add(&format!("axis-count:{table}"), format!("{table} is built for {got} axes, fvar.axisCount is {axes}"));
        }
    };
    if let Some(avar) = &font.avar {
        axis_count("avar", avar.axis_count() as u32);
    }
    if let Some(gvar) = &font.gvar {
        axis_count("gvar", gvar.axis_count() as u32);
    }

    // STAT: at least fvar's axes, each of them by tag
    if let Some(stat) = &font.stat {
        refs.add("axis-count/STAT", 1);
        if (stat.design_axis_count() as u32) < axes {
            issues.add("axis-count:STAT", format!("STAT has {} design axes, fvar has {axes}", stat.design_axis_count()));
        }
        if let (Ok(stat_axes), Ok(arrays)) = (stat.design_axes(), fvar.axis_instance_arrays()) {
            for axis in arrays.axes() {
                if !stat_axes.iter().any(|a| a.axis_tag() == axis.axis_tag()) {
                    issues.add("stat-axis-missing", format!("fvar axis '{}' has no STAT design axis record", axis.axis_tag()));
                }
            }
        }
    }

    if let Some(avar) = font.raw(b"avar") {
        check_avar_size(avar, issues);
    }

    // item variation stores
    let mut stores: Vec<(&str, Option<Result<ItemVariationStore, ReadError>>)> = vec![];
    stores.push(("HVAR", font.hvar.as_ref().map(|t| t.item_variation_store())));
    stores.push(("VVAR", font.vvar.as_ref().map(|t| t.item_variation_store())));
    stores.push(("MVAR", font.mvar.as_ref().and_then(|t| t.item_variation_store())));
    stores.push(("GDEF", font.gdef.as_ref().and_then(|t| t.item_var_store())));
    stores.push(("COLR", font.colr.as_ref().and_then(|t| t.item_variation_store())));
    stores.push(("avar", font.avar.as_ref().and_then(|t| t.var_store())));
    let mut shapes: Vec<(&str, StoreShape)> = vec![];
    for (table, store) in stores {
        // an unreadable store is reported by the traversal
        if let Some(Ok(store)) = store {
            shapes.push((table, check_store(table, &store, axes, issues, refs)));
        }
    }
    let shape = |table: &str| shapes.iter().find(|(t, _)| *t == table).map(|(_, s)| s.clone());

    // delta-set index maps
    let mut maps: Vec<(&str, &str, Option<Result<DeltaSetIndexMap, ReadError>>)> = vec![];
    if let Some(hvar) = &font.hvar {
        maps.push(("HVAR", "advance", hvar.advance_width_mapping()));
        maps.push(("HVAR", "lsb", hvar.lsb_mapping()));
        maps.push(("HVAR", "rsb", hvar.rsb_mapping()));
    }
    if let Some(vvar) = &font.vvar {
        maps.push(("VVAR", "advance", vvar.advance_height_mapping()));
        maps.push(("VVAR", "tsb", vvar.tsb_mapping()));
        maps.push(("VVAR", "bsb", vvar.bsb_mapping()));
        maps.push(("VVAR", "vorg", vvar.v_org_mapping()));
    }
    if let Some(colr) = &font.colr {
        maps.push(("COLR", "varIndexMap", colr.var_index_map()));
    }
    if let Some(avar) = &font.avar {
        maps.push(("avar", "axisIndexMap", avar.axis_index_map()));
    }
    for (table, what, map) in maps {
        let (Some(Ok(map)), Some(shape)) = (map, shape(table)) else { continue };
        for (i, (outer, inner)) in decode_index_map(&map).into_iter().enumerate() {
            check_delta_set_index(table, &format!("{what} map entry {i}"), (outer, inner), &shape, issues, refs);
        }
    }

    // MVAR value records
    if let (Some(mvar), Some(shape)) = (&font.mvar, shape("MVAR")) {
        for record in mvar.value_records() {
            let index = (record.delta_set_outer_index() as u32, record.delta_set_inner_index() as u32);
            check_delta_set_index("MVAR", &format!("value record '{}'", record.value_tag()), index, &shape, issues, refs);
        }
    }

    if let Some(gvar) = font.raw(b"gvar") {
        if check_gvar(gvar, axes as usize, issues, refs).is_none() {
            issues.add("gvar-offsets", format!("gvar ({} bytes) is shorter than its header and offset array", gvar.len()));
        }
    }
}

/// One delta-set index against the shape of its store.
pub fn check_delta_set_index(table: &str, what: &str, index: (u32, u32), shape: &StoreShape, issues: &mut Issues, refs: &mut RefCount) {
    if index == NO_VARIATION {
        return;
    }
    refs.add(&format!("variation-index/{table}"), 1);
    let (outer, inner) = index;
    match shape.get(outer as usize) {
        None | Some(None) => issues.add(
            &format!("varidx-outer:{table}"),
            format!("{table} {what}: outer index {outer}, the store has {} (non-null) ItemVariationData subtables", shape.len()),
        ),
        Some(Some(item_count)) => {
            if inner >= *item_count {
                issues.add(
                    &format!("varidx-inner:{table}"),
                    format!("{table} {what}: ({outer},{inner}), subtable {outer} has itemCount {item_count}"),
                );
            }
        }
    }
}

/// Region list and every ItemVariationData of one store. Returns the store's shape.
fn check_store(table: &str, store: &ItemVariationStore, axes: u32, issues: &mut Issues, refs: &mut RefCount) -> StoreShape {
    let mut region_count = 0u32;
    if let Ok(regions) = store.variation_region_list() {
        refs.add(&format!("axis-count/{table}-regions"), 1);
        if regions.axis_count() as u32 != axes {
            issues.add(
                &format!("axis-count:{table}"),
                format!("{table} variation regions have {} axes, fvar.axisCount is {axes}", regions.axis_count()),
            );
        }
        region_count = regions.region_count() as u32;
        for (r, region) in regions.variation_regions().iter().enumerate() {
            let Ok(region) = region else { continue };
            for (a, axis) in region.region_axes().iter().enumerate() {
                let (start, peak, end) = (axis.start_coord().to_f32(), axis.peak_coord().to_f32(), axis.end_coord().to_f32());
                if !(-1.0 <= start && start <= peak && peak <= end && end <= 1.0) {
                    issues.add(&format!("region-order:{table}"), format!("{table} region {r} axis {a}: ({start}, {peak}, {end}) is not ordered within [-1, 1]"));
                }
            }
        }
    }
    let mut shape = StoreShape::new();
    for (d, data) in store.item_variation_data().iter().enumerate() {
        let Some(Ok(data)) = data else {
            shape.push(None);
            continue;
        };
        shape.push(Some(data.item_count() as u32));
        for index in data.region_indexes() {
            refs.add(&format!("region-index/{table}"), 1);
            if index.get() as u32 >= region_count {
                issues.add(
                    &format!("region-index:{table}"),
                    format!("{table} ItemVariationData {d} uses region {}, the region list has {region_count}", index.get()),
                );
            }
        }
        // deltaSets: itemCount rows; the first `words` columns are wide, the rest narrow
        let words = (data.word_delta_count() & 0x7FFF) as usize;
        let long_words = data.word_delta_count() & 0x8000 != 0;
        let columns = data.region_index_count() as usize;
        if words > columns {
            issues.add(
                &format!("ivd-word-count:{table}"),
                format!("{table} ItemVariationData {d}: wordDeltaCount {words} exceeds regionIndexCount {columns}"),
            );
            continue;
        }
        let (wide, narrow) = if long_words { (4, 2) } else { (2, 1) };
        let need = data.item_count() as usize * (words * wide + (columns - words) * narrow);
        if data.delta_sets().len() < need {
            issues.add(
                &format!("ivd-size:{table}"),
                format!("{table} ItemVariationData {d}: {} items x {columns} regions need {need} bytes of deltas, {} are inside the table", data.item_count(), data.delta_sets().len()),
            );
        }
    }
    shape
}

/// DeltaSetIndexMap entries decoded from the packed bytes ("entryFormat" in the spec).
fn decode_index_map(map: &DeltaSetIndexMap) -> Vec<(u32, u32)> {
    let (format, count, data) = match map {
        DeltaSetIndexMap::Format0(m) => (m.entry_format().bits(), m.map_count() as usize, m.map_data()),
        DeltaSetIndexMap::Format1(m) => (m.entry_format().bits(), m.map_count() as usize, m.map_data()),
    };
    let inner_bits = (format & 0x0F) as u32 + 1;
    let entry_size = ((format & 0x30) >> 4) as usize + 1;
    data.chunks_exact(entry_size)
        .take(count)
        .map(|chunk| {
            let entry = chunk.iter().fold(0u32, |acc, b| (acc << 8) | *b as u32);
            (entry >> inner_bits, entry & ((1u32 << inner_bits) - 1))
        })
        .collect()
}

/// avar: header (8 bytes) then one SegmentMaps (count + 4 bytes per pair) per axis.
fn check_avar_size(avar: &[u8], issues: &mut Issues) {
    let u16_at = |at: usize| avar.get(at..at + 2).map(|b| u16::from_be_bytes([b[0], b[1]]) as usize);
    let Some(axes) = u16_at(6) else { return };
    let mut at = 8;
    for axis in 0..axes {
        let Some(pairs) = u16_at(at) else {
            issues.add("avar-bounds", format!("avar ({} bytes) ends before the segment map of axis {axis}", avar.len()));
            return;
        };
        at += 2 + 4 * pairs;
    }
    if at > avar.len() {
        issues.add("avar-bounds", format!("avar segment maps need {at} bytes, the table has {}", avar.len()));
    }
}

// TupleVariationHeader.tupleIndex flags
const EMBEDDED_PEAK_TUPLE: usize = 0x8000;
const INTERMEDIATE_REGION: usize = 0x4000;
const TUPLE_INDEX_MASK: usize = 0x0FFF;
// GlyphVariationData.tupleVariationCount
const COUNT_MASK: usize = 0x0FFF;

/// gvar by hand. `None`: the header or offset array does not fit.
fn check_gvar(gvar: &[u8], axes: usize, issues: &mut Issues, refs: &mut RefCount) -> Option<()> {
    let u16_at = |at: usize| gvar.get(at..at + 2).map(|b| u16::from_be_bytes([b[0], b[1]]) as usize);
    let u32_at = |at: usize| gvar.get(at..at + 4).map(|b| u32::from_be_bytes([b[0], b[1], b[2], b[3]]) as usize);
    let shared_tuple_count = u16_at(6)?;
    let shared_tuples_offset = u32_at(8)?;
    let glyph_count = u16_at(12)?;
    let long_offsets = u16_at(14)? & 1 != 0;
    let data_start = u32_at(16)?;
    let offsets: Vec<usize> = (0..=glyph_count)
        .map(|i| if long_offsets { u32_at(20 + 4 * i) } else { u16_at(20 + 2 * i).map(|o| o * 2) })
        .collect::<Option<_>>()?;

    let shared_end = shared_tuples_offset + shared_tuple_count * axes * 2;
    if shared_tuple_count > 0 && shared_end > gvar.len() {
        issues.add("gvar-shared-tuples", format!("{shared_tuple_count} shared tuples of {axes} axes at offset {shared_tuples_offset} end at {shared_end}, gvar has {} bytes", gvar.len()));
    }
    if let Some(i) = (1..offsets.len()).find(|i| offsets[*i] < offsets[*i - 1]) {
        issues.add("gvar-offsets", format!("glyph variation data offset {i} ({}) is smaller than offset {} ({})", offsets[i], i - 1, offsets[i - 1]));
        return Some(());
    }
    if data_start + offsets.last().copied().unwrap_or(0) > gvar.len() {
        issues.add("gvar-offsets", format!("glyph variation data ends at {}, gvar has {} bytes", data_start + offsets.last().copied().unwrap_or(0), gvar.len()));
        return Some(());
    }

    for gid in 0..glyph_count {
        let data = &gvar[data_start + offsets[gid]..data_start + offsets[gid + 1]];
        if data.is_empty() {
            continue;
        }
        let d16 = |at: usize| data.get(at..at + 2).map(|b| u16::from_be_bytes([b[0], b[1]]) as usize);
        let bad_headers = |issues: &mut Issues, what: String| issues.add("gvar-tuple-headers", format!("glyph {gid} ({} bytes of variation data): {what}", data.len()));
        let (Some(count), Some(data_offset)) = (d16(0), d16(2)) else {
            bad_headers(issues, "shorter than its 4-byte header".into());
            continue;
        };
        let tuple_count = count & COUNT_MASK;
        let (mut at, mut total_data) = (4usize, 0usize);
        let mut ok = true;
        for t in 0..tuple_count {
            let (Some(size), Some(index)) = (d16(at), d16(at + 2)) else {
                bad_headers(issues, format!("tuple variation header {t} of {tuple_count} starts at byte {at}, outside the data"));
                ok = false;
                break;
            };
            at += 4;
            if index & EMBEDDED_PEAK_TUPLE != 0 {
                at += 2 * axes;
            } else {
                refs.add("shared-tuple-index", 1);
                if index & TUPLE_INDEX_MASK >= shared_tuple_count {
                    issues.add("gvar-shared-index", format!("glyph {gid} tuple {t} uses shared tuple {}, there are {shared_tuple_count}", index & TUPLE_INDEX_MASK));
                }
            }
            if index & INTERMEDIATE_REGION != 0 {
                at += 4 * axes;
            }
            total_data += size;
        }
        if !ok {
            continue;
        }
        if at > data_offset || data_offset > data.len() {
            bad_headers(issues, format!("{tuple_count} headers for {axes} axes end at byte {at}, dataOffset is {data_offset}"));
            continue;
        }
        if data_offset + total_data > data.len() {
            issues.add("gvar-data-size", format!("glyph {gid}: tuple data sizes sum to {total_data} bytes at offset {data_offset}, only {} available", data.len() - data_offset));
        }
    }
    Some(())
}
