//! Generic, complete traversal of a table with read-fonts' `traversal` machinery.
//!
//! Every field of every (sub)table, record and array is visited, every offset is
//! resolved. Two things come out of it:
//!  * read errors (an offset or array that does not fit in the table's bytes), and
//!  * the stream of scalar fields, each with the type name of the table/record that owns
//!    it and its field name, from which `refs.rs` picks the cross-table references.

use skrifa::raw::{
    ReadError,
    traversal::{Field, FieldType, SomeArray, SomeTable},
};

/// A scalar leaf handed to the visitor.
#[derive(Debug, Clone, Copy, PartialEq)]
pub enum Scalar {
    /// any plain integer field (u8/i8/u16/i16/u32/i32/u24/i24)
    Int(i64),
    Glyph(u32),
    NameId(u16),
    /// an offset that read-fonts does not resolve (raw value)
    Offset(u32),
    /// tags, fixed-point numbers, dates, …: not references, value not needed
    Other,
}

pub trait Visitor {
    /// `owner` is the type name of the innermost enclosing table or record.
    fn scalar(&mut self, owner: &str, field: &str, value: Scalar);
    /// A table or record is entered / left.
    fn enter(&mut self, _type_name: &str) {}
    fn leave(&mut self, _type_name: &str) {}
    /// Something could not be read. `path` is a "/"-joined trail of type names and fields.
    fn read_error(&mut self, path: &str, error: String);
}

/// Limits that turn a malicious (cyclic or exploding) structure into an error instead of a hang.
const MAX_DEPTH: usize = 64;
const MAX_NODES: u64 = 200_000_000;

pub struct Walker<'v> {
    visitor: &'v mut dyn Visitor,
    path: Vec<String>,
    nodes: u64,
    node_limit: u64,
    gave_up: bool,
}

impl<'v> Walker<'v> {
    pub fn new(visitor: &'v mut dyn Visitor) -> Self {
        Walker { visitor, path: vec![], nodes: 0, node_limit: MAX_NODES, gave_up: false }
    }

    /// Lower the node budget (used by the truncation probe, whose input is partly garbage).
    pub fn set_node_limit(&mut self, limit: u64) {
        self.node_limit = limit.min(MAX_NODES);
    }

    /// Number of fields and array items visited.
    pub fn nodes(&self) -> u64 {
        self.nodes
    }

    fn path_string(&self) -> String {
        self.path.join("/")
    }

    fn budget(&mut self) -> bool {
        self.nodes += 1;
        if self.gave_up {
            return false;
        }
        if self.path.len() > MAX_DEPTH || self.nodes > self.node_limit {
            self.gave_up = true;
            let p = self.path_string();
            self.visitor
                .read_error(&p, format!("traversal abandoned: depth {} / {} nodes (cyclic or exploding offsets)", self.path.len(), self.nodes));
            return false;
        }
        true
    }

    pub fn table<'a>(&mut self, table: &(dyn SomeTable<'a> + 'a)) {
        let type_name = table.type_name().to_string();
        self.path.push(type_name.clone());
        self.visitor.enter(&type_name);
        if self.budget() {
            let mut idx = 0;
            while let Some(Field { name, value }) = table.get_field(idx) {
                idx += 1;
                self.path.push(name.to_string());
                self.value(&type_name, name, value);
                self.path.pop();
                if self.gave_up {
                    break;
                }
            }
        }
        self.visitor.leave(&type_name);
        self.path.pop();
    }

    fn array<'a>(&mut self, owner: &str, field: &str, array: &(dyn SomeArray<'a> + 'a)) {
        // by index, not by iterator: the iterators stop silently at an unreadable item
        for i in 0..array.len() {
            match array.get(i) {
                Some(item) => self.value(owner, field, item),
                None => {
                    let p = self.path_string();
                    self.visitor
                        .read_error(&p, format!("item {i} of {} ({}) cannot be read", array.len(), array.type_name()));
                    break;
                }
            }
            if self.gave_up {
                break;
            }
        }
    }

    fn error(&mut self, what: &str, e: ReadError) {
        let p = self.path_string();
        self.visitor.read_error(&p, format!("{what}: {e}"));
    }

    fn value<'a>(&mut self, owner: &str, field: &str, value: FieldType<'a>) {
        if !self.budget() {
            return;
        }
        use FieldType as F;
        let scalar = match value {
            F::I8(v) => Scalar::Int(v as i64),
            F::U8(v) => Scalar::Int(v as i64),
            F::I16(v) => Scalar::Int(v as i64),
            F::U16(v) => Scalar::Int(v as i64),
            F::I32(v) => Scalar::Int(v as i64),
            F::U32(v) => Scalar::Int(v as i64),
            F::I24(v) => Scalar::Int(i32::from(v) as i64),
            F::U24(v) => Scalar::Int(u32::from(v) as i64),
            F::GlyphId16(g) => Scalar::Glyph(g.to_u32()),
            F::GlyphId24(g) => Scalar::Glyph(g.to_u32()),
            F::NameId(n) => Scalar::NameId(n.to_u16()),
            F::BareOffset(o) => Scalar::Offset(o.to_u32()),
            F::Tag(_)
            | F::FWord(_)
            | F::UfWord(_)
            | F::MajorMinor(_)
            | F::Version16Dot16(_)
            | F::F2Dot14(_)
            | F::Fixed(_)
            | F::LongDateTime(_)
            | F::Unknown => Scalar::Other,
            F::ResolvedOffset(off) => {
                match off.target {
                    Ok(t) => self.table(&*t),
                    Err(e) => self.error(&format!("offset {}", off.offset.to_u32()), e),
                }
                return;
            }
            F::StringOffset(off) => {
                match off.target {
                    // decoding the whole string proves its bytes are inside the table
                    Ok(s) => self.nodes += s.iter_chars().count() as u64,
                    Err(e) => self.error(&format!("string offset {}", off.offset.to_u32()), e),
                }
                return;
            }
            F::ArrayOffset(off) => {
                match off.target {
                    Ok(a) => self.array(owner, field, &*a),
                    Err(e) => self.error(&format!("array offset {}", off.offset.to_u32()), e),
                }
                return;
            }
            F::Record(rec) => {
                self.table(&rec);
                return;
            }
            F::Array(a) => {
                self.array(owner, field, &*a);
                return;
            }
        };
        self.visitor.scalar(owner, field, scalar);
    }
}

/// A visitor that prints the whole tree (debugging aid, `otcheck --dump`).
pub struct Dump {
    pub depth: usize,
    pub out: String,
}

impl Visitor for Dump {
    fn scalar(&mut self, owner: &str, field: &str, value: Scalar) {
        self.out.push_str(&format!("{}{owner}.{field} = {value:?}\n", "  ".repeat(self.depth)));
    }
    fn enter(&mut self, type_name: &str) {
        self.out.push_str(&format!("{}{type_name} {{\n", "  ".repeat(self.depth)));
        self.depth += 1;
    }
    fn leave(&mut self, _type_name: &str) {
        self.depth = self.depth.saturating_sub(1);
        self.out.push_str(&format!("{}}}\n", "  ".repeat(self.depth)));
    }
    fn read_error(&mut self, path: &str, error: String) {
        self.out.push_str(&format!("{}!! {path}: {error}\n", "  ".repeat(self.depth)));
    }
}
