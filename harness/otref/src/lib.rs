//! `otref` — the independent structural OpenType checker (engine C, trusted base).
//!
//! `check_font` takes the bytes of a compiled font and returns a summary plus the list of
//! every way the file fails to be a well-formed, internally consistent TrueType-flavoured
//! OpenType font. The container is checked on raw bytes (`sfnt`); tables are parsed with
//! read-fonts (`skrifa::raw`) only — no font *writer* and no fontc code is involved.
//!
//! Modules, in the order `check_font` runs them:
//!  * `sfnt`       header, directory, offsets, padding, checksums
//!  * `tables`     required tables, opening each table, full generic traversal (`walk`)
//!  * `refs`       the cross-table references found by the traversal and their bounds
//!  * `glyphs`     glyf/loca parsed by hand: component graph, maxp limits
//!  * `counts`     every table that is indexed by glyph id agrees on the glyph count
//!  * `cmap`       every mapping of every cmap subtable
//!  * `variations` axis counts, variation stores, delta-set index maps, gvar
//!  * `second`     skrifa as a second reader

pub mod cmap;
pub mod counts;
pub mod glyphs;
pub mod refs;
pub mod second;
pub mod sfnt;
pub mod tables;
pub mod variations;
pub mod walk;

/// One defect. `code` is a stable short identifier (`dir-unsorted`, `checksum:glyf`,
/// `gid-range:GSUB-CoverageFormat1`, …); `detail` says what was found where.
#[derive(Debug, Clone, PartialEq, Eq, serde::Serialize)]
pub struct Issue {
    pub code: String,
    pub detail: String,
}

#[derive(Debug, Clone, Default, PartialEq, Eq, serde::Serialize)]
pub struct Summary {
    pub num_glyphs: u16,
    /// table tags in directory order
    pub tables: Vec<String>,
    /// number of cross-table references (glyph ids, lookup/feature indices, name ids,
    /// variation indices, region indices, axis indices, delta-set map entries) that were
    /// compared against their bound
    pub refs_checked: u64,
    /// the same, split by kind of reference and where it was found (`lookup-index/Feature`,
    /// `glyph-id/GSUB`, `variation-index/GPOS`, …)
    pub refs_by_kind: std::collections::BTreeMap<String, u64>,
    pub is_variable: bool,
    pub has_gsub: bool,
    pub has_gpos: bool,
    pub composite_glyphs: u32,
    pub max_component_depth: u16,
    /// fields and array items visited by the generic traversal
    pub fields_traversed: u64,
    /// tables present in the file that this checker has no reader for (not an issue)
    pub untraversed_tables: Vec<String>,
}

/// Issue collector. Identical codes are reported at most `PER_CODE_CAP` times so that one
/// defect repeated over ten thousand glyphs stays readable; the count is kept.
#[derive(Default)]
pub struct Issues {
    list: Vec<Issue>,
    per_code: std::collections::BTreeMap<String, usize>,
}

const PER_CODE_CAP: usize = 3;

impl Issues {
    pub fn add(&mut self, code: &str, detail: String) {
        let n = self.per_code.entry(code.to_string()).or_insert(0);
        *n += 1;
        if *n <= PER_CODE_CAP {
            self.list.push(Issue { code: code.to_string(), detail });
        }
    }

    pub fn into_vec(mut self) -> Vec<Issue> {
        for issue in self.list.iter_mut().rev() {
            // annotate the last reported instance of a capped code with the real count
            if let Some(n) = self.per_code.remove(&issue.code) {
                if n > PER_CODE_CAP {
                    issue.detail.push_str(&format!(" (and {} more of this kind)", n - PER_CODE_CAP));
                }
            }
        }
        self.list
    }
}

/// Running count of references compared against a bound.
#[derive(Default)]
pub struct RefCount {
    by_kind: std::collections::BTreeMap<String, u64>,
}

impl RefCount {
    pub fn add(&mut self, kind: &str, n: u64) {
        if n > 0 {
            *self.by_kind.entry(kind.to_string()).or_insert(0) += n;
        }
    }
}

/// Run one stage of the check; a panic inside a reader library becomes an issue.
fn stage(name: &str, issues: &mut Issues, refs: &mut RefCount, body: impl FnOnce(&mut Issues, &mut RefCount)) {
    let outcome = std::panic::catch_unwind(std::panic::AssertUnwindSafe(|| body(issues, refs)));
    if outcome.is_err() {
        issues.add(&format!("reader-panic:{name}"), format!("a reader panicked during the '{name}' stage"));
    }
}

/// Check one font file.
pub fn check_font(bytes: &[u8]) -> (Summary, Vec<Issue>) {
    let mut issues = Issues::default();
    let mut refs = RefCount::default();
    let mut summary = Summary::default();

    // 1. container
    let sfnt = sfnt::check_container(bytes, &mut issues);
    summary.tables = sfnt.tags();
    summary.is_variable = sfnt.has(b"fvar");
    summary.has_gsub = sfnt.has(b"GSUB");
    summary.has_gpos = sfnt.has(b"GPOS");

    // 2. required tables; open every table; traverse every field
    //    (cross-table references are range-checked as the traversal meets them)
    tables::check_required(&sfnt, &mut issues);
    let font = tables::Font::open(&sfnt, &mut issues);
    summary.num_glyphs = font.num_glyphs.unwrap_or(0);
    tables::check_head(&font, &mut issues);
    stage("traversal", &mut issues, &mut refs, |issues, refs| {
        let mut checker = refs::RefChecker::new(refs::Bounds::of(&font), issues, refs);
        tables::traverse_all(&sfnt, &font, &mut checker, &mut summary);
    });
    stage("layout", &mut issues, &mut refs, |issues, refs| {
        refs::check_colr_layers(&font, issues, refs);
        refs::check_pairpos2_devices(&font, issues, refs);
        refs::check_extension_lookups(&font, issues, refs);
    });

    // 3. glyphs
    stage("glyphs", &mut issues, &mut refs, |issues, refs| {
        let glyph_stats = glyphs::check_glyphs(&font, issues, refs);
        summary.composite_glyphs = glyph_stats.composite_glyphs;
        summary.max_component_depth = glyph_stats.max_component_depth;
    });

    // 4. glyph-count agreement
    stage("counts", &mut issues, &mut refs, |issues, _| counts::check_counts(&font, issues));

    // 5. cmap
    stage("cmap", &mut issues, &mut refs, |issues, refs| cmap::check_cmap(&font, issues, refs));

    // 6. variations
    stage("variations", &mut issues, &mut refs, |issues, refs| variations::check_variations(&font, issues, refs));

    // 7. second reader
    stage("skrifa", &mut issues, &mut refs, |issues, _| second::check_with_skrifa(bytes, &font, issues));

    summary.refs_checked = refs.by_kind.values().sum();
    summary.refs_by_kind = refs.by_kind;
    (summary, issues.into_vec())
}
