//! Cross-table references, picked out of the generic traversal and compared with their
//! bounds as they stream by.
//!
//! The traversal (`walk`) hands over every scalar field together with the type name of the
//! table/record that owns it and the field's name (both come from read-fonts' generated
//! schema). What is a reference is decided
//!  * by type: every `GlyphId16`/`GlyphId24` is a glyph id, every `NameId` a name id;
//!  * by the table `SITES` below: (owner type, field) -> what the integer indexes.
//!
//! Codes: `gid-range:<TABLE>-<Owner>`, `name-id:<TABLE>-<Owner>`, `lookup-index:<TABLE>-<Owner>`,
//! `feature-index:<TABLE>-<Owner>`, `axis-index:<TABLE>-<Owner>`, `varidx-outer:<TABLE>`,
//! `varidx-inner:<TABLE>`, `extension-type:<TABLE>`, `extension-mixed:<TABLE>`,
//! `mark-filtering-set:<TABLE>`, `colr-layer-range`, `colr-base-unsorted`,
//! `palette-index:COLR`, `read:<TABLE>` (a structure cannot be read).

use crate::{
    Issues, RefCount,
    tables::Font,
    variations::{NO_VARIATION, StoreShape, check_delta_set_index},
    walk::{Scalar, Visitor},
};
use std::collections::BTreeSet;

/// What an integer field refers to.
#[derive(Debug, Clone, Copy, PartialEq, Eq)]
enum Site {
    /// index into the LookupList of the same table (GSUB or GPOS)
    LookupIndex,
    /// index into the FeatureList of the same table
    FeatureIndex,
    /// the same, 0xFFFF = none
    RequiredFeatureIndex,
    /// index into fvar's axes
    AxisIndex,
    /// index into GDEF MarkGlyphSets
    MarkFilteringSet,
    /// index into a CPAL palette (0xFFFF = foreground)
    PaletteIndex,
    /// VariationIndex.deltaSetOuterIndex / deltaSetInnerIndex (GDEF's ItemVariationStore)
    VarOuter,
    VarInner,
    /// SingleSubstFormat1.deltaGlyphID: applied to every covered glyph
    SingleSubstDelta,
    /// CharacterVariantParams.numNamedParameters (remembered for the next name id)
    NumNamedParameters,
    /// STAT axis value -> index into STAT's own design axes
    StatAxisIndex,
}

/// (owner type name, field name) -> meaning. Owner and field names are read-fonts'.
const SITES: &[(&str, &str, Site)] = &[
    ("Feature", "lookup_list_indices", Site::LookupIndex),
    ("SequenceLookupRecord", "lookup_list_index", Site::LookupIndex),
    ("LangSys", "feature_indices", Site::FeatureIndex),
    ("LangSys", "required_feature_index", Site::RequiredFeatureIndex),
    ("FeatureTableSubstitutionRecord", "feature_index", Site::FeatureIndex),
    ("ConditionFormat1", "axis_index", Site::AxisIndex),
    ("Lookup", "mark_filtering_set", Site::MarkFilteringSet),
    ("Layer", "palette_index", Site::PaletteIndex),
    ("VariationIndex", "delta_set_outer_index", Site::VarOuter),
    ("VariationIndex", "delta_set_inner_index", Site::VarInner),
    ("SingleSubstFormat1", "delta_glyph_id", Site::SingleSubstDelta),
    ("CharacterVariantParams", "num_named_parameters", Site::NumNamedParameters),
    ("AxisValueFormat1", "axis_index", Site::StatAxisIndex),
    ("AxisValueFormat2", "axis_index", Site::StatAxisIndex),
    ("AxisValueFormat3", "axis_index", Site::StatAxisIndex),
    ("AxisValueRecord", "axis_index", Site::StatAxisIndex),
];

/// Name-id fields in which particular values mean "none".
///
/// cvXX parameters: the spec says the ids "may be NULL"; feaLib writes 0 for an absent
/// label, fea-rs (fontc) writes 0xFFFF, which is what HarfBuzz calls HB_OT_NAME_ID_INVALID.
/// Both are accepted as "no string".
const NAME_ID_NONE: &[(&str, &str, &[u16])] = &[
    ("CharacterVariantParams", "feat_ui_label_name_id", &[0, 0xFFFF]),
    ("CharacterVariantParams", "feat_ui_tooltip_text_name_id", &[0, 0xFFFF]),
    ("CharacterVariantParams", "sample_text_name_id", &[0, 0xFFFF]),
    ("SizeParams", "name_entry", &[0]),
    ("Cpal", "palette_labels_array_offset", &[0xFFFF]),
    ("Cpal", "palette_entry_labels_array_offset", &[0xFFFF]),
    ("InstanceRecord", "post_script_name_id", &[0xFFFF]),
];

/// Tables whose glyph ids / name ids are not taken from the traversal: `name` holds the
/// name ids themselves; `cmap` and `glyf` have dedicated complete checks.
const NOT_FROM_TRAVERSAL: &[&str] = &["name", "cmap", "glyf"];

#[derive(Default, Clone)]
pub struct LayoutBounds {
    pub lookup_count: u32,
    pub feature_count: u32,
}

/// Everything a reference can be compared against, computed once per font.
#[derive(Default)]
pub struct Bounds {
    pub num_glyphs: u32,
    pub name_ids: BTreeSet<u16>,
    pub axis_count: Option<u32>,
    pub gsub: Option<LayoutBounds>,
    pub gpos: Option<LayoutBounds>,
    /// itemCount of each ItemVariationData of GDEF's store (None entry: null offset)
    pub gdef_store: Option<StoreShape>,
    pub mark_glyph_sets: Option<u32>,
    pub palette_entries: Option<u32>,
    pub stat_axes: Option<u32>,
}

impl Bounds {
    pub fn of(font: &Font) -> Bounds {
        let mut b = Bounds { num_glyphs: font.num_glyphs.unwrap_or(0) as u32, ..Default::default() };
        if let Some(name) = &font.name {
            b.name_ids = name.name_record().iter().map(|r| r.name_id().to_u16()).collect();
        }
        b.axis_count = font.fvar.as_ref().map(|f| f.axis_count() as u32);
        b.gsub = font.gsub.as_ref().map(|t| LayoutBounds {
            lookup_count: t.lookup_list().map(|l| l.lookup_count() as u32).unwrap_or(0),
            feature_count: t.feature_list().map(|l| l.feature_count() as u32).unwrap_or(0),
        });
        b.gpos = font.gpos.as_ref().map(|t| LayoutBounds {
            lookup_count: t.lookup_list().map(|l| l.lookup_count() as u32).unwrap_or(0),
            feature_count: t.feature_list().map(|l| l.feature_count() as u32).unwrap_or(0),
        });
        b.gdef_store = gdef_store_shape(font);
        if let Some(gdef) = &font.gdef {
            if let Some(Ok(sets)) = gdef.mark_glyph_sets_def() {
                b.mark_glyph_sets = Some(sets.mark_glyph_set_count() as u32);
            }
        }
        b.palette_entries = font.cpal.as_ref().map(|c| c.num_palette_entries() as u32);
        b.stat_axes = font.stat.as_ref().map(|s| s.design_axis_count() as u32);
        b
    }

    fn layout(&self, table: &str) -> Option<&LayoutBounds> {
        match table {
            "GSUB" => self.gsub.as_ref(),
            "GPOS" => self.gpos.as_ref(),
            _ => None,
        }
    }
}

/// itemCount of every ItemVariationData of GDEF's store.
fn gdef_store_shape(font: &Font) -> Option<StoreShape> {
    let store = font.gdef.as_ref()?.item_var_store()?.ok()?;
    Some(store.item_variation_data().iter().map(|d| d.and_then(|d| d.ok()).map(|d| d.item_count() as u32)).collect())
}

/// FNV-1a over the visited stream; equal digests = identical traversals.
#[derive(Clone, Copy, PartialEq, Eq, Debug)]
pub struct Digest(u64, u64);

impl Default for Digest {
    fn default() -> Self {
        Digest(0xcbf29ce484222325, 0)
    }
}

impl Digest {
    fn bytes(&mut self, b: &[u8]) {
        for x in b {
            self.0 = (self.0 ^ *x as u64).wrapping_mul(0x100000001b3);
        }
        self.1 += 1;
    }
}

/// A visitor that only digests the stream (second run of the truncation probe).
#[derive(Default)]
pub struct DigestOnly {
    pub digest: Digest,
    pub errors: usize,
}

fn digest_scalar(d: &mut Digest, owner: &str, field: &str, value: Scalar) {
    d.bytes(owner.as_bytes());
    d.bytes(field.as_bytes());
    let (kind, v): (u8, i64) = match value {
        Scalar::Int(v) => (1, v),
        Scalar::Glyph(g) => (2, g as i64),
        Scalar::NameId(n) => (3, n as i64),
        Scalar::Offset(o) => (4, o as i64),
        Scalar::Other => (5, 0), // value not compared: an out-of-bounds scalar is still caught via the fields around it
    };
    d.bytes(&[kind]);
    d.bytes(&v.to_be_bytes());
}

impl Visitor for DigestOnly {
    fn scalar(&mut self, owner: &str, field: &str, value: Scalar) {
        digest_scalar(&mut self.digest, owner, field, value);
    }
    fn enter(&mut self, type_name: &str) {
        self.digest.bytes(b"{");
        self.digest.bytes(type_name.as_bytes());
    }
    fn leave(&mut self, _type_name: &str) {
        self.digest.bytes(b"}");
    }
    fn read_error(&mut self, path: &str, _error: String) {
        if path.contains(PAIRPOS2_VALUE_RECORD_PATH) {
            return; // see `check_pairpos2_devices`
        }
        self.errors += 1;
        self.digest.bytes(b"!");
    }
}

/// Per-subtable scratch for SingleSubstFormat1 (covered ranges seen so far).
#[derive(Default)]
struct Frame {
    type_name: String,
    covered: Vec<(u32, u32)>,
    range_start: Option<u32>,
}

/// The visitor of the first traversal run: digests, files read errors, checks references.
pub struct RefChecker<'i> {
    pub bounds: Bounds,
    pub issues: &'i mut Issues,
    pub refs: &'i mut RefCount,
    pub digest: DigestOnly,
    table: String,
    stack: Vec<Frame>,
    pending_outer: Option<u32>,
    named_parameters: u32,
}

impl<'i> RefChecker<'i> {
    pub fn new(bounds: Bounds, issues: &'i mut Issues, refs: &'i mut RefCount) -> Self {
        RefChecker {
            bounds,
            issues,
            refs,
            digest: DigestOnly::default(),
            table: String::new(),
            stack: vec![],
            pending_outer: None,
            named_parameters: 0,
        }
    }

    /// Start a top-level table; resets the digest.
    pub fn begin_table(&mut self, tag: &str) {
        self.table = tag.to_string();
        self.digest = DigestOnly::default();
        self.stack.clear();
        self.pending_outer = None;
    }

    fn out_of_range(&mut self, kind: &str, owner: &str, field: &str, value: u32, bound: u32, what: &str) {
        let code = format!("{kind}:{}-{owner}", self.table);
        self.issues
            .add(&code, format!("{}: {owner}.{field} = {value}, but {what} is {bound}", self.table));
    }

    fn glyph(&mut self, owner: &str, field: &str, gid: u32) {
        self.refs.add(&format!("glyph-id/{}", self.table), 1);
        if gid >= self.bounds.num_glyphs {
            self.out_of_range("gid-range", owner, field, gid, self.bounds.num_glyphs, "numGlyphs");
        }
        // remember coverage for an enclosing SingleSubstFormat1: the stack is
        // [.., SingleSubstFormat1, CoverageFormat1] or [.., SingleSubstFormat1, CoverageFormat2, RangeRecord]
        let n = self.stack.len();
        let parent = (n.saturating_sub(3)..n).find(|i| self.stack[*i].type_name == "SingleSubstFormat1");
        if let Some(parent) = parent {
            let frame = &mut self.stack[parent];
            match (owner, field) {
                ("CoverageFormat1", _) => frame.covered.push((gid, gid)),
                (_, "start_glyph_id") => frame.range_start = Some(gid),
                (_, "end_glyph_id") => {
                    if let Some(start) = frame.range_start.take() {
                        frame.covered.push((start, gid));
                    }
                }
                _ => {}
            }
        }
    }

    fn name_id(&mut self, owner: &str, field: &str, id: u16) {
        if NAME_ID_NONE.iter().any(|(o, f, none)| *o == owner && *f == field && none.contains(&id)) {
            return;
        }
        // cvXX: firstParamUiLabelNameId starts a run of numNamedParameters consecutive ids
        let count = if (owner, field) == ("CharacterVariantParams", "first_param_ui_label_name_id") {
            self.named_parameters
        } else {
            1
        };
        for id in (0..count).map(|i| id.wrapping_add(i as u16)) {
            self.refs.add(&format!("name-id/{}-{owner}", self.table), 1);
            if !self.bounds.name_ids.contains(&id) {
                let code = format!("name-id:{}-{owner}", self.table);
                self.issues
                    .add(&code, format!("{}: {owner}.{field} = {id}, but 'name' has no record with that id", self.table));
            }
        }
    }

    fn int(&mut self, owner: &str, field: &str, v: i64) {
        let Some((_, _, site)) = SITES.iter().find(|(o, f, _)| *o == owner && *f == field) else {
            return;
        };
        let table = self.table.clone();
        let value = v as u32;
        match site {
            Site::LookupIndex => {
                if let Some(l) = self.bounds.layout(&table).cloned() {
                    self.refs.add(&format!("lookup-index/{owner}"), 1);
                    if value >= l.lookup_count {
                        self.out_of_range("lookup-index", owner, field, value, l.lookup_count, "lookupCount");
                    }
                }
            }
            Site::FeatureIndex | Site::RequiredFeatureIndex => {
                if *site == Site::RequiredFeatureIndex && value == 0xFFFF {
                    return;
                }
                if let Some(l) = self.bounds.layout(&table).cloned() {
                    self.refs.add(&format!("feature-index/{owner}"), 1);
                    if value >= l.feature_count {
                        self.out_of_range("feature-index", owner, field, value, l.feature_count, "featureCount");
                    }
                }
            }
            Site::AxisIndex => {
                self.refs.add(&format!("axis-index/{owner}"), 1);
                let axes = self.bounds.axis_count.unwrap_or(0);
                if value >= axes {
                    self.out_of_range("axis-index", owner, field, value, axes, "fvar.axisCount");
                }
            }
            Site::MarkFilteringSet => {
                self.refs.add(&format!("mark-filtering-set/{table}"), 1);
                let sets = self.bounds.mark_glyph_sets.unwrap_or(0);
                if value >= sets {
                    self.issues.add(
                        &format!("mark-filtering-set:{table}"),
                        format!("{table}: Lookup.markFilteringSet = {value}, GDEF has {sets} mark glyph sets"),
                    );
                }
            }
            Site::PaletteIndex => {
                if value != 0xFFFF {
                    self.refs.add("palette-index", 1);
                    let entries = self.bounds.palette_entries.unwrap_or(0);
                    if value >= entries {
                        self.issues.add(
                            &format!("palette-index:{table}"),
                            format!("{table}: Layer.paletteIndex = {value}, CPAL.numPaletteEntries = {entries}"),
                        );
                    }
                }
            }
            Site::VarOuter => self.pending_outer = Some(value),
            Site::VarInner => {
                let Some(outer) = self.pending_outer.take() else { return };
                if table != "GDEF" && table != "GPOS" {
                    return; // BASE carries its own store
                }
                match &self.bounds.gdef_store {
                    Some(shape) => {
                        check_delta_set_index(&table, &format!("{owner}"), (outer, value), shape, self.issues, self.refs)
                    }
                    None if (outer, value) == NO_VARIATION => {}
                    None => {
                        self.refs.add(&format!("variation-index/{table}"), 1);
                        self.issues.add(
                            &format!("varidx-outer:{table}"),
                            format!("{table}: VariationIndex ({outer},{value}) but GDEF has no ItemVariationStore"),
                        )
                    }
                }
            }
            Site::SingleSubstDelta => {
                let covered = self.stack.last().map(|f| f.covered.clone()).unwrap_or_default();
                for (s, e) in covered {
                    let first = (s as i64 + v).rem_euclid(65536) as u32;
                    let last = (e as i64 + v).rem_euclid(65536) as u32;
                    self.refs.add("glyph-id/GSUB-SingleSubstFormat1-output", (e.saturating_sub(s) + 1) as u64);
                    // a range that wraps around 65535 necessarily leaves the glyph range
                    if first > last || last >= self.bounds.num_glyphs {
                        let n = self.bounds.num_glyphs;
                        self.out_of_range("gid-range", owner, field, last.max(first), n, &format!("(covered {s}..={e} + delta {v}) numGlyphs"));
                    }
                }
            }
            Site::NumNamedParameters => self.named_parameters = value,
            Site::StatAxisIndex => {
                self.refs.add("axis-index/STAT", 1);
                let axes = self.bounds.stat_axes.unwrap_or(0);
                if value >= axes {
                    self.out_of_range("axis-index", owner, field, value, axes, "STAT.designAxisCount");
                }
            }
        }
    }
}

impl Visitor for RefChecker<'_> {
    fn scalar(&mut self, owner: &str, field: &str, value: Scalar) {
        self.digest.scalar(owner, field, value);
        let skip = NOT_FROM_TRAVERSAL.contains(&self.table.as_str());
        match value {
            Scalar::Glyph(g) if !skip => self.glyph(owner, field, g),
            Scalar::NameId(n) if !skip => self.name_id(owner, field, n),
            Scalar::Int(v) => self.int(owner, field, v),
            _ => {}
        }
    }

    fn enter(&mut self, type_name: &str) {
        self.digest.enter(type_name);
        self.stack.push(Frame { type_name: type_name.to_string(), ..Default::default() });
    }

    fn leave(&mut self, type_name: &str) {
        self.digest.leave(type_name);
        self.stack.pop();
    }

    fn read_error(&mut self, path: &str, error: String) {
        if path.contains(PAIRPOS2_VALUE_RECORD_PATH) {
            return; // see `check_pairpos2_devices`
        }
        self.digest.read_error(path, error.clone());
        self.issues.add(&format!("read:{}", self.table), format!("{path}: {error}"));
    }
}

/// read-fonts 0.40's traversal hands the value records of PairPosFormat2 an empty buffer
/// (generated_gpos.rs, `Class1Record::traverse`: `FontData::new(&[])`), so every device
/// offset inside them fails to resolve there. Those errors are ignored in the traversal and
/// the devices are visited here through the typed API instead.
const PAIRPOS2_VALUE_RECORD_PATH: &str = "/Class1Record/class2_records/Class2Record/";

pub fn check_pairpos2_devices(font: &Font, issues: &mut Issues, refs: &mut RefCount) {
    use skrifa::raw::tables::{
        gpos::{PairPos, PositionSubtables},
        layout::DeviceOrVariationIndex,
    };
    let Some(Ok(lookups)) = font.gpos.as_ref().map(|g| g.lookup_list()) else { return };
    let shape = gdef_store_shape(font);
    for (l, lookup) in lookups.lookups().iter().enumerate() {
        let Ok(Ok(PositionSubtables::Pair(subtables))) = lookup.map(|l| l.subtables()) else { continue };
        for subtable in subtables.iter() {
            let Ok(PairPos::Format2(pairs)) = subtable else { continue };
            let data = pairs.offset_data();
            for (c1, class1) in pairs.class1_records().iter().enumerate() {
                let Ok(class1) = class1 else {
                    issues.add("read:GPOS", format!("lookup {l}: PairPosFormat2 Class1Record {c1} cannot be read"));
                    break;
                };
                for (c2, class2) in class1.class2_records().iter().enumerate() {
                    let Ok(class2) = class2 else {
                        issues.add("read:GPOS", format!("lookup {l}: PairPosFormat2 Class2Record {c1}/{c2} cannot be read"));
                        break;
                    };
                    for record in [class2.value_record1(), class2.value_record2()] {
                        let devices = [
                            record.x_placement_device(data),
                            record.y_placement_device(data),
                            record.x_advance_device(data),
                            record.y_advance_device(data),
                        ];
                        for device in devices.into_iter().flatten() {
                            match device {
                                Err(e) => issues.add("read:GPOS", format!("lookup {l}: PairPosFormat2 class pair {c1}/{c2}: device: {e}")),
                                Ok(DeviceOrVariationIndex::Device(_)) => {}
                                Ok(DeviceOrVariationIndex::VariationIndex(v)) => {
                                    let index = (v.delta_set_outer_index() as u32, v.delta_set_inner_index() as u32);
                                    match &shape {
                                        Some(shape) => check_delta_set_index("GPOS", "PairPosFormat2 value record", index, shape, issues, refs),
                                        None if index == NO_VARIATION => {}
                                        None => issues.add("varidx-outer:GPOS", format!("GPOS: VariationIndex {index:?} but GDEF has no ItemVariationStore")),
                                    }
                                }
                            }
                        }
                    }
                }
            }
        }
    }
}

/// Extension lookups, on raw bytes (read-fonts refuses to open an extension subtable whose
/// wrapped type is not a plain lookup type, which would hide the precise defect): every
/// subtable of a GSUB type 7 / GPOS type 9 lookup wraps a non-extension type, and all
/// subtables of one lookup wrap the same type.
pub fn check_extension_lookups(font: &Font, issues: &mut Issues, refs: &mut RefCount) {
    for (tag, table, extension_type) in [(b"GSUB", "GSUB", 7u16), (b"GPOS", "GPOS", 9u16)] {
        let Some(bytes) = font.raw(tag) else { continue };
        let u16_at = |at: usize| bytes.get(at..at + 2).map(|b| u16::from_be_bytes([b[0], b[1]]));
        let Some(lookup_list) = u16_at(8).map(|o| o as usize) else { continue };
        let Some(lookup_count) = u16_at(lookup_list) else { continue };
        for l in 0..lookup_count as usize {
            let Some(lookup) = u16_at(lookup_list + 2 + 2 * l).map(|o| lookup_list + o as usize) else { break };
            if u16_at(lookup) != Some(extension_type) {
                continue;
            }
            let mut wrapped_types = BTreeSet::new();
            for s in 0..u16_at(lookup + 4).unwrap_or(0) as usize {
                let Some(subtable) = u16_at(lookup + 6 + 2 * s).map(|o| lookup + o as usize) else { break };
                let Some(wrapped) = u16_at(subtable + 2) else { break };
                refs.add(&format!("extension-type/{table}"), 1);
                wrapped_types.insert(wrapped);
                if wrapped == 0 || wrapped >= extension_type {
                    issues.add(
                        &format!("extension-type:{table}"),
                        format!("{table} lookup {l} subtable {s}: extension wraps lookup type {wrapped} (must be 1..{})", extension_type - 1),
                    );
                }
            }
            if wrapped_types.len() > 1 {
                issues.add(&format!("extension-mixed:{table}"), format!("{table} lookup {l}: extension subtables wrap different types {wrapped_types:?}"));
            }
        }
    }
}

/// COLR v0 is a pair of record arrays that index each other; checked here because the
/// bound is inside the same table and the generic stream has no notion of it.
pub fn check_colr_layers(font: &Font, issues: &mut Issues, refs: &mut RefCount) {
    let Some(colr) = &font.colr else { return };
    let layers = colr.num_layer_records() as u32;
    if let Some(Ok(bases)) = colr.base_glyph_records() {
        let mut previous: Option<u32> = None;
        for base in bases {
            let (first, n) = (base.first_layer_index() as u32, base.num_layers() as u32);
            refs.add("colr-layer-range", 1);
            if first + n > layers {
                issues.add(
                    "colr-layer-range",
                    format!("COLR base glyph {} uses layers {first}..{} of {layers}", base.glyph_id().to_u32(), first + n),
                );
            }
            let gid = base.glyph_id().to_u32();
            if previous.is_some_and(|p| p >= gid) {
                issues.add("colr-base-unsorted", format!("COLR base glyph records are not sorted by glyph id at {gid}"));
            }
            previous = Some(gid);
        }
    }
}
