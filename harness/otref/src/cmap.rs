//! cmap decoded by hand ("cmap — Character to Glyph Index Mapping Table"): every subtable
//! lies inside the table and every mapping of every subtable yields a glyph id < numGlyphs.
//!
//! Codes: `cmap-bounds`, `cmap-format`, `cmap4-terminator`, `cmap4-order`,
//! `cmap4-range-offset`, `cmap12-order`, `cmap12-codepoint`, `cmap14-order`,
//! `gid-range:cmap<format>`.

use crate::{Issues, RefCount, tables::Font};
use std::collections::BTreeSet;

struct Bytes<'a>(&'a [u8]);

impl Bytes<'_> {
    fn u16(&self, at: usize) -> Option<u32> {
        let b = self.0.get(at..at + 2)?;
        Some(u16::from_be_bytes([b[0], b[1]]) as u32)
    }
    fn u24(&self, at: usize) -> Option<u32> {
        let b = self.0.get(at..at + 3)?;
        Some(u32::from_be_bytes([0, b[0], b[1], b[2]]))
    }
    fn u32(&self, at: usize) -> Option<u32> {
        let b = self.0.get(at..at + 4)?;
        Some(u32::from_be_bytes([b[0], b[1], b[2], b[3]]))
    }
}

struct Ctx<'i> {
    num_glyphs: u32,
    issues: &'i mut Issues,
    refs: &'i mut RefCount,
}

impl Ctx<'_> {
    /// Check the glyph ids `first..=last` produced by one mapping (range).
    fn glyphs(&mut self, format: u32, first: u32, last: u32, what: impl Fn() -> String) {
        self.refs.add(&format!("glyph-id/cmap{format}"), (last.saturating_sub(first) + 1) as u64);
        if last >= self.num_glyphs || first > last {
            self.issues
                .add(&format!("gid-range:cmap{format}"), format!("{} maps to glyph {last}, numGlyphs is {}", what(), self.num_glyphs));
        }
    }
}

pub fn check_cmap(font: &Font, issues: &mut Issues, refs: &mut RefCount) {
    let Some(cmap) = font.raw(b"cmap") else { return };
    let mut ctx = Ctx { num_glyphs: font.num_glyphs.unwrap_or(0) as u32, issues, refs };
    let table = Bytes(cmap);
    let Some(num_tables) = table.u16(2) else {
        ctx.issues.add("cmap-bounds", "cmap is shorter than its header".into());
        return;
    };
    let mut offsets = BTreeSet::new();
    for i in 0..num_tables as usize {
        match table.u32(4 + 8 * i + 4) {
            Some(offset) => {
                offsets.insert(offset as usize);
            }
            None => {
                ctx.issues.add("cmap-bounds", format!("encoding record {i} of {num_tables} lies outside cmap ({} bytes)", cmap.len()));
                return;
            }
        }
    }
    for offset in offsets {
        if check_subtable(cmap, offset, &mut ctx).is_none() {
            ctx.issues
                .add("cmap-bounds", format!("subtable at offset {offset} does not fit in cmap ({} bytes) or in its own length", cmap.len()));
        }
    }
}

/// `None`: ran out of bytes.
fn check_subtable(cmap: &[u8], offset: usize, ctx: &mut Ctx) -> Option<()> {
    let format = Bytes(cmap.get(offset..)?).u16(0)?;
    // the subtable's own length field bounds everything inside it
    let length = match format {
        0 | 2 | 4 | 6 => Bytes(cmap.get(offset..)?).u16(2)? as usize,
        8 | 10 | 12 | 13 => Bytes(cmap.get(offset..)?).u32(4)? as usize,
        14 => Bytes(cmap.get(offset..)?).u32(2)? as usize,
        other => {
            ctx.issues.add("cmap-format", format!("subtable at offset {offset} has undefined format {other}"));
            return Some(());
        }
    };
    let sub = Bytes(cmap.get(offset..offset.checked_add(length)?)?);
    match format {
        0 => {
            for code in 0..256usize {
                let gid = *sub.0.get(6 + code)? as u32;
                ctx.glyphs(0, gid, gid, || format!("code {code}"));
            }
        }
        4 => check_format4(&sub, ctx)?,
        6 => {
            let (first, count) = (sub.u16(6)?, sub.u16(8)?);
            for i in 0..count {
                let gid = sub.u16(10 + 2 * i as usize)?;
                ctx.glyphs(6, gid, gid, || format!("code {}", first + i));
            }
        }
        12 | 13 => {
            let groups = sub.u32(12)? as usize;
            let mut previous_end: Option<u32> = None;
            for i in 0..groups {
                let at = 16 + 12 * i;
                let (start, end, glyph) = (sub.u32(at)?, sub.u32(at + 4)?, sub.u32(at + 8)?);
                if start > end || previous_end.is_some_and(|p| start <= p) {
                    ctx.issues.add("cmap12-order", format!("group {i} [U+{start:04X}, U+{end:04X}] is empty or not after the previous group"));
                    continue;
                }
                previous_end = Some(end);
                if end > 0x10FFFF {
                    ctx.issues.add("cmap12-codepoint", format!("group {i} ends at U+{end:X}"));
                }
                let last = if format == 12 { glyph.saturating_add(end - start) } else { glyph };
                ctx.glyphs(format, glyph, last, || format!("group {i} [U+{start:04X}, U+{end:04X}]"));
            }
        }
        14 => check_format14(&sub, ctx)?,
        2 | 8 | 10 => {
            ctx.issues.add("cmap-format", format!("subtable format {format} at offset {offset} is valid OpenType but not decoded by this checker"));
        }
        _ => unreachable!(),
    }
    Some(())
}

fn check_format4(sub: &Bytes, ctx: &mut Ctx) -> Option<()> {
    let seg_count = (sub.u16(6)? / 2) as usize;
    let end_codes = 14;
    let start_codes = end_codes + 2 * seg_count + 2; // + reservedPad
    let id_deltas = start_codes + 2 * seg_count;
    let id_range_offsets = id_deltas + 2 * seg_count;
    // all four arrays present
    sub.0.get(..id_range_offsets + 2 * seg_count)?;
    if seg_count == 0 || sub.u16(end_codes + 2 * (seg_count - 1))? != 0xFFFF {
        ctx.issues.add("cmap4-terminator", "format 4: the last segment does not end at 0xFFFF".into());
    }
    let mut previous_end: Option<u32> = None;
    for i in 0..seg_count {
        let end = sub.u16(end_codes + 2 * i)?;
        let start = sub.u16(start_codes + 2 * i)?;
        let delta = sub.u16(id_deltas + 2 * i)?;
        let range_offset_at = id_range_offsets + 2 * i;
        let range_offset = sub.u16(range_offset_at)? as usize;
        if start > end || previous_end.is_some_and(|p| start <= p) {
            ctx.issues.add("cmap4-order", format!("format 4: segment {i} [{start:#06X}, {end:#06X}] is empty or not after the previous segment"));
            continue;
        }
        previous_end = Some(end);
        if range_offset == 0 {
            // gid = (code + delta) mod 65536 for every code of the segment
            let first = (start + delta) & 0xFFFF;
            let last = (end + delta) & 0xFFFF;
            if first <= last {
                ctx.glyphs(4, first, last, || format!("format 4 segment {i} [{start:#06X}, {end:#06X}]"));
            } else {
                // the segment wraps through 65535 -> 0
                ctx.glyphs(4, first, 0xFFFF, || format!("format 4 segment {i} [{start:#06X}, {end:#06X}]"));
                ctx.glyphs(4, 0, last, || format!("format 4 segment {i} [{start:#06X}, {end:#06X}]"));
            }
        } else {
            for code in start..=end {
                let at = range_offset_at + range_offset + 2 * (code - start) as usize;
                let Some(raw) = sub.u16(at) else {
                    ctx.issues.add(
                        "cmap4-range-offset",
                        format!("format 4: segment {i} code {code:#06X} reads glyphIdArray at byte {at}, beyond the subtable ({} bytes)", sub.0.len()),
                    );
                    break;
                };
                if raw != 0 {
                    let gid = (raw + delta) & 0xFFFF;
                    ctx.glyphs(4, gid, gid, || format!("format 4 code {code:#06X}"));
                }
            }
        }
    }
    Some(())
}

fn check_format14(sub: &Bytes, ctx: &mut Ctx) -> Option<()> {
    let records = sub.u32(6)? as usize;
    let mut previous_selector: Option<u32> = None;
    for i in 0..records {
        let at = 10 + 11 * i;
        let (selector, default_uvs, non_default_uvs) = (sub.u24(at)?, sub.u32(at + 3)? as usize, sub.u32(at + 7)? as usize);
        if previous_selector.is_some_and(|p| selector <= p) {
            ctx.issues.add("cmap14-order", format!("format 14: variation selector U+{selector:04X} is not after the previous one"));
        }
        previous_selector = Some(selector);
        if default_uvs != 0 {
            let ranges = sub.u32(default_uvs)? as usize;
            // every range record must be present
            sub.0.get(default_uvs + 4..default_uvs + 4 + 4 * ranges)?;
        }
        if non_default_uvs != 0 {
            let mappings = sub.u32(non_default_uvs)? as usize;
            let mut previous: Option<u32> = None;
            for m in 0..mappings {
                let at = non_default_uvs + 4 + 5 * m;
                let (unicode, gid) = (sub.u24(at)?, sub.u16(at + 3)?);
                if previous.is_some_and(|p| unicode <= p) {
                    ctx.issues.add("cmap14-order", format!("format 14: U+{selector:04X} mapping U+{unicode:04X} is not after the previous one"));
                }
                previous = Some(unicode);
                ctx.glyphs(14, gid, gid, || format!("format 14 <U+{unicode:04X}, U+{selector:04X}>"));
            }
        }
    }
    Some(())
}
