//! skrifa as a second, independent reader: it must open the font, map every cmap entry
//! and draw every glyph (at the default location and, for variable fonts, at one corner of
//! the design space, which exercises gvar).
//!
//! Codes: `skrifa-reject`, `skrifa-glyph-count`, `skrifa-outline`, `skrifa-charmap`.

use crate::{Issues, tables::Font};
use skrifa::{
    FontRef, GlyphId, MetadataProvider,
    instance::{Location, Size},
    outline::{DrawSettings, OutlinePen},
};

/// A pen that only counts: the point is that drawing succeeds.
#[derive(Default)]
struct CountingPen(u64);

impl OutlinePen for CountingPen {
    fn move_to(&mut self, _x: f32, _y: f32) {
        self.0 += 1;
    }
    fn line_to(&mut self, _x: f32, _y: f32) {
        self.0 += 1;
    }
    fn quad_to(&mut self, _cx0: f32, _cy0: f32, _x: f32, _y: f32) {
        self.0 += 1;
    }
    fn curve_to(&mut self, _cx0: f32, _cy0: f32, _cx1: f32, _cy1: f32, _x: f32, _y: f32) {
        self.0 += 1;
    }
    fn close(&mut self) {}
}

pub fn check_with_skrifa(bytes: &[u8], font: &Font, issues: &mut Issues) {
    let skrifa_font = match FontRef::new(bytes) {
        Ok(f) => f,
        Err(e) => {
            issues.add("skrifa-reject", format!("skrifa cannot open the font: {e}"));
            return;
        }
    };
    let Some(num_glyphs) = font.num_glyphs else { return };

    let outlines = skrifa_font.outline_glyphs();
    let has_outlines = font.raw(b"glyf").is_some_and(|g| !g.is_empty());
    if has_outlines {
        // one corner of the design space: every axis at its maximum
        let axes = skrifa_font.axes();
        let corner_settings: Vec<(skrifa::Tag, f32)> = axes.iter().map(|a| (a.tag(), a.max_value())).collect();
        let corner: Location = axes.location(corner_settings);
        let default = Location::default();
        let locations: Vec<&Location> = if axes.is_empty() { vec![&default] } else { vec![&default, &corner] };
        for gid in 0..num_glyphs {
            let Some(glyph) = outlines.get(GlyphId::new(gid as u32)) else {
                issues.add("skrifa-outline", format!("skrifa has no outline for glyph {gid} of {num_glyphs}"));
                continue;
            };
            for location in &locations {
                let mut pen = CountingPen::default();
                if let Err(e) = glyph.draw(DrawSettings::unhinted(Size::unscaled(), *location), &mut pen) {
                    issues.add("skrifa-outline", format!("skrifa cannot draw glyph {gid}: {e}"));
                    break;
                }
            }
        }
    }

    // charmap: every mapping lands on a real glyph
    let charmap = skrifa_font.charmap();
    if font.raw(b"cmap").is_some() {
        for (codepoint, gid) in charmap.mappings() {
            if gid.to_u32() >= num_glyphs as u32 {
                issues.add("skrifa-charmap", format!("skrifa maps U+{codepoint:04X} to glyph {}, numGlyphs is {num_glyphs}", gid.to_u32()));
            }
        }
        for (codepoint, selector, variant) in charmap.variant_mappings() {
            if let skrifa::charmap::MapVariant::Variant(gid) = variant {
                if gid.to_u32() >= num_glyphs as u32 {
                    issues.add("skrifa-charmap", format!("skrifa maps <U+{codepoint:04X}, U+{selector:04X}> to glyph {}", gid.to_u32()));
                }
            }
        }
    }
}
