//! glyf + loca parsed by hand ("glyf — Glyph Data" in the OpenType spec): every glyph
//! record fits in its loca slot, component glyph ids are in range, the component graph is
//! acyclic, and the real maxima do not exceed what maxp declares.
//!
//! Codes: `loca-order`, `loca-bounds`, `glyf-parse`, `glyf-endpts`, `gid-range:glyf-component`,
//! `glyf-cycle`, `maxp-version`, `maxp:<field>`.

use crate::{Issues, RefCount, tables::Font};

#[derive(Default)]
pub struct GlyphStats {
    pub composite_glyphs: u32,
    pub max_component_depth: u16,
}

/// What the checks need to know about one glyph.
#[derive(Default, Clone)]
struct GlyphInfo {
    points: u32,
    contours: u32,
    instruction_len: u32,
    /// component glyph ids (empty for simple and empty glyphs)
    components: Vec<u16>,
    is_composite: bool,
}

struct Reader<'a> {
    data: &'a [u8],
    pos: usize,
}

impl<'a> Reader<'a> {
    fn u8(&mut self) -> Option<u8> {
        let v = *self.data.get(self.pos)?;
        self.pos += 1;
        Some(v)
    }
    fn u16(&mut self) -> Option<u16> {
        let b = self.data.get(self.pos..self.pos + 2)?;
        self.pos += 2;
        Some(u16::from_be_bytes([b[0], b[1]]))
    }
    fn skip(&mut self, n: usize) -> Option<()> {
        self.data.get(self.pos..self.pos.checked_add(n)?)?;
        self.pos += n;
        Some(())
    }
}

// simple glyph flags
const X_SHORT: u8 = 0x02;
const Y_SHORT: u8 = 0x04;
const REPEAT: u8 = 0x08;
const X_SAME_OR_POSITIVE: u8 = 0x10;
const Y_SAME_OR_POSITIVE: u8 = 0x20;
// composite glyph flags
const ARG_1_AND_2_ARE_WORDS: u16 = 0x0001;
const WE_HAVE_A_SCALE: u16 = 0x0008;
const MORE_COMPONENTS: u16 = 0x0020;
const WE_HAVE_AN_X_AND_Y_SCALE: u16 = 0x0040;
const WE_HAVE_A_TWO_BY_TWO: u16 = 0x0080;
const WE_HAVE_INSTRUCTIONS: u16 = 0x0100;

/// Parse one non-empty glyph record. `Err(what)` if it does not fit in `data`.
fn parse_glyph(data: &[u8]) -> Result<GlyphInfo, String> {
    let mut r = Reader { data, pos: 0 };
    let truncated = |what: &str| format!("record of {} bytes ends inside {what}", data.len());
    let number_of_contours = r.u16().ok_or_else(|| truncated("the header"))? as i16;
    r.skip(8).ok_or_else(|| truncated("the bounding box"))?;
    let mut info = GlyphInfo::default();
    if number_of_contours >= 0 {
        let mut last_end: Option<u16> = None;
        for i in 0..number_of_contours {
            let end = r.u16().ok_or_else(|| truncated("endPtsOfContours"))?;
            if last_end.is_some_and(|l| end <= l) {
                return Err(format!("endPtsOfContours[{i}] = {end} does not increase"));
            }
            last_end = Some(end);
        }
        let points = last_end.map(|e| e as u32 + 1).unwrap_or(0);
        let instruction_len = r.u16().ok_or_else(|| truncated("instructionLength"))?;
        r.skip(instruction_len as usize).ok_or_else(|| truncated("the instructions"))?;
        // flags, run-length encoded; remember how many bytes each point's x and y take
        let (mut x_bytes, mut y_bytes, mut seen) = (0usize, 0usize, 0u32);
        while seen < points {
            let flag = r.u8().ok_or_else(|| truncated("the flags"))?;
            let repeat = if flag & REPEAT != 0 { r.u8().ok_or_else(|| truncated("the flags"))? as u32 + 1 } else { 1 };
            if seen + repeat > points {
                return Err(format!("flag repeat runs past the {points} points"));
            }
            seen += repeat;
            let x = if flag & X_SHORT != 0 { 1 } else if flag & X_SAME_OR_POSITIVE != 0 { 0 } else { 2 };
            let y = if flag & Y_SHORT != 0 { 1 } else if flag & Y_SAME_OR_POSITIVE != 0 { 0 } else { 2 };
            x_bytes += x * repeat as usize;
            y_bytes += y * repeat as usize;
        }
        r.skip(x_bytes).ok_or_else(|| truncated("the x coordinates"))?;
        r.skip(y_bytes).ok_or_else(|| truncated("the y coordinates"))?;
        info.points = points;
        info.contours = number_of_contours as u32;
        info.instruction_len = instruction_len as u32;
    } else {
        info.is_composite = true;
        loop {
            let flags = r.u16().ok_or_else(|| truncated("a component"))?;
            let gid = r.u16().ok_or_else(|| truncated("a component"))?;
            info.components.push(gid);
            let args = if flags & ARG_1_AND_2_ARE_WORDS != 0 { 4 } else { 2 };
            let transform = if flags & WE_HAVE_A_SCALE != 0 {
                2
            } else if flags & WE_HAVE_AN_X_AND_Y_SCALE != 0 {
                4
            } else if flags & WE_HAVE_A_TWO_BY_TWO != 0 {
                8
            } else {
                0
            };
            r.skip(args + transform).ok_or_else(|| truncated("a component"))?;
            if flags & MORE_COMPONENTS == 0 {
                if flags & WE_HAVE_INSTRUCTIONS != 0 {
                    let n = r.u16().ok_or_else(|| truncated("instructionLength"))?;
                    r.skip(n as usize).ok_or_else(|| truncated("the instructions"))?;
                    info.instruction_len = n as u32;
                }
                break;
            }
        }
    }
    Ok(info)
}

/// loca as a list of byte offsets into glyf.
pub fn loca_offsets(font: &Font) -> Option<Vec<u32>> {
    let loca = font.raw(b"loca")?;
    Some(if font.loca_is_long()? {
        loca.chunks_exact(4).map(|c| u32::from_be_bytes([c[0], c[1], c[2], c[3]])).collect()
    } else {
        loca.chunks_exact(2).map(|c| u16::from_be_bytes([c[0], c[1]]) as u32 * 2).collect()
    })
}

/// Totals of a glyph with all components resolved.
#[derive(Clone, Copy, Default)]
struct Flat {
    points: u64,
    contours: u64,
    depth: u32,
}

pub fn check_glyphs(font: &Font, issues: &mut Issues, refs: &mut RefCount) -> GlyphStats {
    let mut stats = GlyphStats::default();
    let (Some(glyf), Some(offsets)) = (font.raw(b"glyf"), loca_offsets(font)) else {
        return stats;
    };
    let num_glyphs = font.num_glyphs.unwrap_or(0) as usize;

    // loca
    if let Some(i) = (1..offsets.len()).find(|i| offsets[*i] < offsets[*i - 1]) {
        issues.add("loca-order", format!("loca[{i}] = {} is smaller than loca[{}] = {}", offsets[i], i - 1, offsets[i - 1]));
    }
    if let Some(i) = (0..offsets.len()).find(|i| offsets[*i] as usize > glyf.len()) {
        issues.add("loca-bounds", format!("loca[{i}] = {} is beyond the end of glyf ({} bytes)", offsets[i], glyf.len()));
    }

    // glyph records
    let n = offsets.len().saturating_sub(1).min(num_glyphs);
    let mut glyphs: Vec<GlyphInfo> = vec![GlyphInfo::default(); n];
    for gid in 0..n {
        let (start, end) = (offsets[gid] as usize, offsets[gid + 1] as usize);
        if start >= end || end > glyf.len() {
            continue; // empty glyph, or already reported
        }
        match parse_glyph(&glyf[start..end]) {
            Ok(info) => glyphs[gid] = info,
            Err(what) => {
                let code = if what.contains("endPtsOfContours[") { "glyf-endpts" } else { "glyf-parse" };
                issues.add(code, format!("glyph {gid}: {what}"));
            }
        }
    }

    // component references
    let mut graph_ok = true;
    for (gid, g) in glyphs.iter().enumerate() {
        if g.is_composite {
            stats.composite_glyphs += 1;
        }
        for c in &g.components {
            refs.add("glyph-id/glyf-component", 1);
            if *c as usize >= num_glyphs {
                issues.add("gid-range:glyf-component", format!("glyph {gid} has a component with glyph id {c}, numGlyphs is {num_glyphs}"));
                graph_ok = false;
            } else if *c as usize >= n {
                graph_ok = false; // loca too short: reported by `counts`
            }
        }
    }

    // acyclic? depth-first, three colours, explicit stack (a cyclic font must not overflow ours)
    let mut flat: Vec<Option<Flat>> = vec![None; n];
    if graph_ok {
        #[derive(Clone, Copy, PartialEq)]
        enum Colour {
            White,
            Grey,
            Black,
        }
        let mut colour = vec![Colour::White; n];
        'roots: for root in 0..n {
            if colour[root] != Colour::White {
                continue;
            }
            let mut stack: Vec<(usize, usize)> = vec![(root, 0)];
            colour[root] = Colour::Grey;
            while let Some((g, next_child)) = stack.last().copied() {
                if let Some(child) = glyphs[g].components.get(next_child).map(|c| *c as usize) {
                    stack.last_mut().unwrap().1 += 1;
                    match colour[child] {
                        Colour::Grey => {
                            let path: Vec<String> = stack.iter().map(|(g, _)| g.to_string()).collect();
                            issues.add("glyf-cycle", format!("component cycle: {} -> {child}", path.join(" -> ")));
                            graph_ok = false;
                            break 'roots;
                        }
                        Colour::White => {
                            colour[child] = Colour::Grey;
                            stack.push((child, 0));
                        }
                        Colour::Black => {}
                    }
                } else {
                    // all children done: totals of g
                    let info = &glyphs[g];
                    let mut f = Flat { points: info.points as u64, contours: info.contours as u64, depth: 0 };
                    for c in &info.components {
                        let cf = flat[*c as usize].unwrap_or_default();
                        f.points += cf.points;
                        f.contours += cf.contours;
                        f.depth = f.depth.max(cf.depth + 1);
                    }
                    flat[g] = Some(f);
                    colour[g] = Colour::Black;
                    stack.pop();
                }
            }
        }
    }

    // maxp
    let Some(maxp) = &font.maxp else { return stats };
    let (
        Some(max_points),
        Some(max_contours),
        Some(max_composite_points),
        Some(max_composite_contours),
        Some(max_size_of_instructions),
        Some(max_component_elements),
        Some(max_component_depth),
    ) = (
        maxp.max_points(),
        maxp.max_contours(),
        maxp.max_composite_points(),
        maxp.max_composite_contours(),
        maxp.max_size_of_instructions(),
        maxp.max_component_elements(),
        maxp.max_component_depth(),
    )
    else {
        issues.add("maxp-version", format!("maxp version {:?} has no TrueType fields (version 1.0 is required with glyf)", maxp.version()));
        return stats;
    };
    let mut limit = |field: &str, real: u64, at: usize, declared: u16| {
        if real > declared as u64 {
            issues.add(&format!("maxp:{field}"), format!("glyph {at} needs {real}, maxp.{field} declares {declared}"));
        }
    };
    let max_by = |f: &dyn Fn(usize) -> u64| (0..n).map(|g| (f(g), g)).max().unwrap_or((0, 0));
    let simple = |g: usize| !glyphs[g].is_composite;
    let (v, at) = max_by(&|g| if simple(g) { glyphs[g].points as u64 } else { 0 });
    limit("maxPoints", v, at, max_points);
    let (v, at) = max_by(&|g| if simple(g) { glyphs[g].contours as u64 } else { 0 });
    limit("maxContours", v, at, max_contours);
    let (v, at) = max_by(&|g| glyphs[g].instruction_len as u64);
    limit("maxSizeOfInstructions", v, at, max_size_of_instructions);
    let (v, at) = max_by(&|g| glyphs[g].components.len() as u64);
    limit("maxComponentElements", v, at, max_component_elements);
    if graph_ok {
        let composite = |g: usize| glyphs[g].is_composite;
        let (v, at) = max_by(&|g| if composite(g) { flat[g].unwrap_or_default().points } else { 0 });
        limit("maxCompositePoints", v, at, max_composite_points);
        let (v, at) = max_by(&|g| if composite(g) { flat[g].unwrap_or_default().contours } else { 0 });
        limit("maxCompositeContours", v, at, max_composite_contours);
        let (v, at) = max_by(&|g| flat[g].unwrap_or_default().depth as u64);
        limit("maxComponentDepth", v, at, max_component_depth);
        stats.max_component_depth = v.min(u16::MAX as u64) as u16;
    }
    stats
}
