//! The sfnt container, checked on raw bytes against the OpenType spec ("Organization of
//! an OpenType Font", "Calculating Checksums"). Nothing here uses a font library.

use crate::Issues;

/// One table-directory record.
#[derive(Debug, Clone, PartialEq, Eq)]
pub struct TableRecord {
    pub tag: [u8; 4],
    pub checksum: u32,
    pub offset: u32,
    pub length: u32,
}

impl TableRecord {
    pub fn tag_str(&self) -> String {
        tag_str(&self.tag)
    }
    fn end(&self) -> u64 {
        self.offset as u64 + self.length as u64
    }
}

pub fn tag_str(tag: &[u8; 4]) -> String {
    tag.iter()
        .map(|b| if (0x20..0x7f).contains(b) { *b as char } else { '?' })
        .collect()
}

pub const HEADER_LEN: usize = 12;
pub const RECORD_LEN: usize = 16;
const CHECKSUM_MAGIC: u32 = 0xB1B0_AFBA;
/// Offset of `checkSumAdjustment` inside `head`.
pub const HEAD_ADJUSTMENT_OFFSET: usize = 8;

fn be16(b: &[u8], at: usize) -> u16 {
    u16::from_be_bytes([b[at], b[at + 1]])
}

fn be32(b: &[u8], at: usize) -> u32 {
    u32::from_be_bytes([b[at], b[at + 1], b[at + 2], b[at + 3]])
}

/// Sum of big-endian u32 words of `bytes`; a trailing partial word is padded with zeros.
pub fn checksum(bytes: &[u8]) -> u32 {
    let mut sum = 0u32;
    let mut chunks = bytes.chunks_exact(4);
    for c in &mut chunks {
        sum = sum.wrapping_add(u32::from_be_bytes([c[0], c[1], c[2], c[3]]));
    }
    let rest = chunks.remainder();
    if !rest.is_empty() {
        let mut last = [0u8; 4];
        last[..rest.len()].copy_from_slice(rest);
        sum = sum.wrapping_add(u32::from_be_bytes(last));
    }
    sum
}

/// The parsed directory. `records` is in file (directory) order.
pub struct Sfnt<'a> {
    pub bytes: &'a [u8],
    pub records: Vec<TableRecord>,
}

impl<'a> Sfnt<'a> {
    /// The bytes of the first table with this tag, if the record lies inside the file.
    pub fn table(&self, tag: &[u8; 4]) -> Option<&'a [u8]> {
        let r = self.records.iter().find(|r| &r.tag == tag)?;
        if r.end() > self.bytes.len() as u64 {
            return None;
        }
        Some(&self.bytes[r.offset as usize..r.end() as usize])
    }

    pub fn has(&self, tag: &[u8; 4]) -> bool {
        self.records.iter().any(|r| &r.tag == tag)
    }

    pub fn tags(&self) -> Vec<String> {
        self.records.iter().map(|r| r.tag_str()).collect()
    }
}

/// Parse the header and directory and check everything the container promises.
pub fn check_container<'a>(bytes: &'a [u8], issues: &mut Issues) -> Sfnt<'a> {
    let mut sfnt = Sfnt { bytes, records: vec![] };
    if bytes.len() < HEADER_LEN {
        issues.add("sfnt-truncated", format!("file has {} bytes, the header needs 12", bytes.len()));
        return sfnt;
    }
    let version = be32(bytes, 0);
    if version != 0x0001_0000 {
        issues.add("sfnt-version", format!("sfntVersion is 0x{version:08X}, expected 0x00010000 (TrueType outlines)"));
        if version != 0x4F54_544F && version != 0x7472_7565 {
            // not an sfnt of any flavour: the rest of the header means nothing
            return sfnt;
        }
    }
    let num_tables = be16(bytes, 4) as usize;
    let dir_end = HEADER_LEN + num_tables * RECORD_LEN;
    if num_tables == 0 {
        issues.add("dir-empty", "numTables is 0".into());
        return sfnt;
    }
    if dir_end > bytes.len() {
        issues.add("dir-truncated", format!("directory of {num_tables} tables needs {dir_end} bytes, file has {}", bytes.len()));
        return sfnt;
    }

    // binary-search helper fields
    let entry_selector = (usize::BITS - 1 - num_tables.leading_zeros()) as usize; // floor(log2 n)
    let search_range = (1usize << entry_selector) * 16;
    let range_shift = num_tables * 16 - search_range;
    let got = (be16(bytes, 6) as usize, be16(bytes, 8) as usize, be16(bytes, 10) as usize);
    if got != (search_range, entry_selector, range_shift) {
        issues.add(
            "dir-binsearch",
            format!(
                "searchRange/entrySelector/rangeShift are {got:?}, numTables={num_tables} requires {:?}",
                (search_range, entry_selector, range_shift)
            ),
        );
    }

    for i in 0..num_tables {
        let at = HEADER_LEN + i * RECORD_LEN;
        sfnt.records.push(TableRecord {
            tag: [bytes[at], bytes[at + 1], bytes[at + 2], bytes[at + 3]],
            checksum: be32(bytes, at + 4),
            offset: be32(bytes, at + 8),
            length: be32(bytes, at + 12),
        });
    }

    // order
    for w in sfnt.records.windows(2) {
        if w[0].tag == w[1].tag {
            issues.add("dir-duplicate", format!("tag '{}' occurs twice", w[0].tag_str()));
        } else if w[0].tag > w[1].tag {
            issues.add("dir-unsorted", format!("'{}' is listed before '{}'", w[0].tag_str(), w[1].tag_str()));
        }
    }

    // placement of each table
    let file_len = bytes.len() as u64;
    for r in &sfnt.records {
        let t = r.tag_str();
        if r.offset % 4 != 0 {
            issues.add(&format!("align:{t}"), format!("offset {} is not a multiple of 4", r.offset));
        }
        if (r.offset as usize) < dir_end {
            issues.add(&format!("overlap:{t}"), format!("offset {} lies inside the header/directory (ends at {dir_end})", r.offset));
        }
        if r.end() > file_len {
            issues.add(&format!("bounds:{t}"), format!("offset {} + length {} exceeds the file length {file_len}", r.offset, r.length));
        }
    }
    let mut by_offset: Vec<&TableRecord> = sfnt.records.iter().collect();
    by_offset.sort_by_key(|r| (r.offset, r.length));
    for w in by_offset.windows(2) {
        if w[0].end() > w[1].offset as u64 {
            issues.add(
                &format!("overlap:{}", w[1].tag_str()),
                format!("'{}' [{}, {}) overlaps '{}' starting at {}", w[0].tag_str(), w[0].offset, w[0].end(), w[1].tag_str(), w[1].offset),
            );
        }
    }

    // padding: every byte that belongs to neither the directory nor a table is zero
    if bytes.len() % 4 != 0 {
        issues.add("file-length", format!("file length {} is not a multiple of 4 (last table unpadded)", bytes.len()));
    }
    let mut covered = vec![false; bytes.len()];
    covered[..dir_end].iter_mut().for_each(|c| *c = true);
    for r in &sfnt.records {
        let (s, e) = ((r.offset as u64).min(file_len) as usize, r.end().min(file_len) as usize);
        covered[s..e].iter_mut().for_each(|c| *c = true);
    }
    if let Some(at) = (0..bytes.len()).find(|i| !covered[*i] && bytes[*i] != 0) {
        issues.add("padding", format!("byte 0x{:02X} at offset {at} is outside every table and not zero", bytes[at]));
    }

    // checksums
    for r in &sfnt.records {
        if r.end() > file_len {
            continue;
        }
        let data = &bytes[r.offset as usize..r.end() as usize];
        let sum = if &r.tag == b"head" && data.len() >= HEAD_ADJUSTMENT_OFFSET + 4 {
            let mut copy = data.to_vec();
            copy[HEAD_ADJUSTMENT_OFFSET..HEAD_ADJUSTMENT_OFFSET + 4].fill(0);
            checksum(&copy)
        } else {
            checksum(data)
        };
        if sum != r.checksum {
            issues.add(&format!("checksum:{}", r.tag_str()), format!("directory says 0x{:08X}, table sums to 0x{sum:08X}", r.checksum));
        }
    }
    if let Some(head) = sfnt.records.iter().find(|r| &r.tag == b"head") {
        let at = head.offset as usize + HEAD_ADJUSTMENT_OFFSET;
        if head.length as usize >= HEAD_ADJUSTMENT_OFFSET + 4 && head.end() <= file_len {
            let stored = be32(bytes, at);
            let mut copy = bytes.to_vec();
            copy[at..at + 4].fill(0);
            let want = CHECKSUM_MAGIC.wrapping_sub(checksum(&copy));
            if stored != want {
                issues.add("checksum-adjustment", format!("head.checkSumAdjustment is 0x{stored:08X}, the file requires 0x{want:08X}"));
            }
        }
    }
    sfnt
}
