//! The checker against known-good and deliberately broken fonts.
//!
//! Good fonts are compiled from /repo/resources/testdata with the product binary; each
//! corruption patches bytes at offsets computed here (with an own, minimal sfnt reader),
//! then repairs the checksums so that only the intended defect is present.

use otref::check_font;
use std::{
    collections::BTreeSet,
    path::PathBuf,
    sync::{
        OnceLock,
        atomic::{AtomicU32, Ordering},
    },
};

const FONTC: &str = "/verif/target-repo/release/fontc";
const TESTDATA: &str = "/repo/resources/testdata";

fn compile(fixture: &str, args: &[&str]) -> Vec<u8> {
    static N: AtomicU32 = AtomicU32::new(0);
    let dir = PathBuf::from(format!("/dev/shm/otref-test-{}-{}", std::process::id(), N.fetch_add(1, Ordering::Relaxed)));
    std::fs::create_dir_all(&dir).unwrap();
    let out = dir.join("font.ttf");
    let status = std::process::Command::new(FONTC)
        .current_dir(&dir)
        .arg(format!("{TESTDATA}/{fixture}"))
        .arg("-o")
        .arg(&out)
        .arg("-b")
        .arg(dir.join("build"))
        .args(args)
        .env("SOURCE_DATE_EPOCH", "1700000000")
        .env_remove("RUST_LOG")
        .stdout(std::process::Stdio::null())
        .stderr(std::process::Stdio::null())
        .status()
        .expect("cannot run the product binary; build it with ./check setup");
    let bytes = std::fs::read(&out);
    let _ = std::fs::remove_dir_all(&dir);
    assert!(status.success(), "{fixture} does not compile");
    bytes.expect("no output font")
}

/// variable, GSUB + GPOS + GDEF (with variation indices), HVAR, MVAR
fn wght_var() -> Vec<u8> {
    static F: OnceLock<Vec<u8>> = OnceLock::new();
    F.get_or_init(|| compile("wght_var.designspace", &[])).clone()
}

/// variable, composite glyphs, avar, mark positioning with mark filtering sets
fn oswald() -> Vec<u8> {
    static F: OnceLock<Vec<u8>> = OnceLock::new();
    F.get_or_init(|| compile("glyphs3/Oswald-AE-comb.glyphs", &[])).clone()
}

// ------------------------------------------------------------------ a minimal sfnt toolkit

fn be16(b: &[u8], at: usize) -> usize {
    u16::from_be_bytes([b[at], b[at + 1]]) as usize
}
fn be32(b: &[u8], at: usize) -> usize {
    u32::from_be_bytes([b[at], b[at + 1], b[at + 2], b[at + 3]]) as usize
}
fn put16(b: &mut [u8], at: usize, v: u16) {
    b[at..at + 2].copy_from_slice(&v.to_be_bytes());
}
fn put32(b: &mut [u8], at: usize, v: u32) {
    b[at..at + 4].copy_from_slice(&v.to_be_bytes());
}

/// (directory record position, table offset, table length)
fn find(font: &[u8], tag: &str) -> (usize, usize, usize) {
    let n = be16(font, 4);
    for i in 0..n {
        let at = 12 + 16 * i;
        if &font[at..at + 4] == tag.as_bytes() {
            return (at, be32(font, at + 8), be32(font, at + 12));
        }
    }
    panic!("no table {tag}");
}

fn sum32(bytes: &[u8]) -> u32 {
    let mut s = 0u32;
    for c in bytes.chunks(4) {
        let mut w = [0u8; 4];
        w[..c.len()].copy_from_slice(c);
        s = s.wrapping_add(u32::from_be_bytes(w));
    }
    s
}

/// Make head.checkSumAdjustment right for the file as it is.
fn fix_adjustment(font: &mut [u8]) {
    let (_, head, _) = find(font, "head");
    put32(font, head + 8, 0);
    let total = sum32(font);
    put32(font, head + 8, 0xB1B0AFBAu32.wrapping_sub(total));
}

/// Recompute every table checksum and the adjustment.
fn fix_checksums(font: &mut [u8]) {
    let (_, head, _) = find(font, "head");
    put32(font, head + 8, 0);
    for i in 0..be16(font, 4) {
        let at = 12 + 16 * i;
        let (offset, length) = (be32(font, at + 8), be32(font, at + 12));
        let sum = sum32(&font[offset..offset + length]);
        put32(font, at + 4, sum);
    }
    fix_adjustment(font);
}

/// A new font file from (tag, data) pairs: sorted, padded, checksummed.
fn build(mut tables: Vec<(String, Vec<u8>)>) -> Vec<u8> {
    tables.sort();
    let n = tables.len();
    let entry_selector = (n as f64).log2().floor() as u16;
    let search_range = (1u16 << entry_selector) * 16;
    let mut out = vec![0, 1, 0, 0];
    out.extend((n as u16).to_be_bytes());
    out.extend(search_range.to_be_bytes());
    out.extend(entry_selector.to_be_bytes());
    out.extend((n as u16 * 16 - search_range).to_be_bytes());
    let mut offset = 12 + 16 * n;
    for (tag, data) in &tables {
        out.extend(tag.as_bytes());
        out.extend([0; 4]);
        out.extend((offset as u32).to_be_bytes());
        out.extend((data.len() as u32).to_be_bytes());
        offset += (data.len() + 3) & !3;
    }
    for (_, data) in &tables {
        out.extend(data);
        out.resize((out.len() + 3) & !3, 0);
    }
    fix_checksums(&mut out);
    out
}

fn tables_of(font: &[u8]) -> Vec<(String, Vec<u8>)> {
    (0..be16(font, 4))
        .map(|i| {
            let at = 12 + 16 * i;
            let (offset, length) = (be32(font, at + 8), be32(font, at + 12));
            (String::from_utf8(font[at..at + 4].to_vec()).unwrap(), font[offset..offset + length].to_vec())
        })
        .collect()
}

/// Rebuild `font` with one table replaced (or removed if `data` is None).
fn with_table(font: &[u8], tag: &str, data: Option<Vec<u8>>) -> Vec<u8> {
    let mut tables = tables_of(font);
    tables.retain(|(t, _)| t != tag);
    if let Some(data) = data {
        tables.push((tag.to_string(), data));
    }
    build(tables)
}

fn codes(font: &[u8]) -> BTreeSet<String> {
    check_font(font).1.into_iter().map(|i| i.code).collect()
}

fn assert_only(font: &[u8], expected: &[&str]) {
    let got = codes(font);
    let want: BTreeSet<String> = expected.iter().map(|s| s.to_string()).collect();
    assert_eq!(got, want, "issues: {:#?}", check_font(font).1);
}

fn assert_has(font: &[u8], expected: &str) {
    let got = codes(font);
    assert!(got.contains(expected), "expected {expected}, got {:#?}", check_font(font).1);
}

// ------------------------------------------------------------------ good fonts

#[test]
fn good_fonts_have_no_issues() {
    let fixtures: [(&str, &[&str]); 9] = [
        ("wght_var.designspace", &[]),
        ("static.designspace", &[]),
        ("glyphs3/Oswald-AE-comb.glyphs", &[]),
        ("glyphs3/Oswald-AE-comb.glyphs", &["--flatten-components=true"]),
        ("COLRv0-var/COLRv0-var.designspace", &[]),
        ("Vertical.ufo", &[]),
        ("dspace_rules/CustomFeatures.designspace", &[]),
        ("MVAR.designspace", &[]),
        ("glyphs3/WghtVar_Avar.glyphs", &["--skip-features"]),
    ];
    let mut refs = 0;
    for (fixture, args) in fixtures {
        let font = compile(fixture, args);
        let (summary, issues) = check_font(&font);
        assert!(issues.is_empty(), "{fixture} {args:?}: {issues:#?}");
        assert!(summary.num_glyphs > 0 && summary.fields_traversed > 100, "{fixture}: {summary:?}");
        assert!(summary.untraversed_tables.is_empty(), "{fixture}: {summary:?}");
        refs += summary.refs_checked;
    }
    assert!(refs > 200, "only {refs} references were checked");
}

#[test]
fn the_test_toolkit_rebuilds_a_clean_font() {
    let font = wght_var();
    assert_only(&build(tables_of(&font)), &[]);
    let summary = check_font(&oswald()).0;
    assert!(summary.composite_glyphs > 0 && summary.max_component_depth >= 1 && summary.is_variable && summary.has_gpos);
    for kind in ["glyph-id", "name-id", "lookup-index", "feature-index", "variation-index", "region-index", "axis-count", "mark-filtering-set"] {
        let n: u64 = summary.refs_by_kind.iter().filter(|(k, _)| k.starts_with(kind)).map(|(_, n)| *n).sum();
        assert!(n > 0, "no {kind} reference was checked: {summary:?}");
    }
}

// ------------------------------------------------------------------ container

#[test]
fn directory_order() {
    let mut font = wght_var();
    // swap the first two records (addition commutes: no checksum changes)
    let (a, b) = (12, 28);
    for i in 0..16 {
        font.swap(a + i, b + i);
    }
    assert_only(&font, &["dir-unsorted"]);
}

#[test]
fn directory_duplicate_tag() {
    let mut font = wght_var();
    let first: [u8; 4] = font[12..16].try_into().unwrap();
    font[28..32].copy_from_slice(&first);
    fix_adjustment(&mut font);
    assert_has(&font, "dir-duplicate");
}

#[test]
fn binary_search_fields() {
    let mut font = wght_var();
    let v = be16(&font, 6) as u16;
    put16(&mut font, 6, v * 2);
    fix_adjustment(&mut font);
    assert_only(&font, &["dir-binsearch"]);
}

#[test]
fn sfnt_version() {
    let mut font = wght_var();
    font[0..4].copy_from_slice(b"OTTO");
    fix_adjustment(&mut font);
    assert_has(&font, "sfnt-version");
}

#[test]
fn table_checksum() {
    let mut font = wght_var();
    let (record, _, _) = find(&font, "glyf");
    font[record + 7] ^= 1;
    fix_adjustment(&mut font);
    assert_only(&font, &["checksum:glyf"]);
}

#[test]
fn head_checksum_ignores_the_adjustment_field() {
    let mut font = wght_var();
    let (_, head, _) = find(&font, "head");
    let v = be32(&font, head + 8) as u32;
    put32(&mut font, head + 8, v.wrapping_add(1));
    assert_only(&font, &["checksum-adjustment"]);
}

#[test]
fn unrepaired_table_change_shows_in_both_checksums() {
    let mut font = wght_var();
    let (_, name, _) = find(&font, "name");
    font[name + 3] ^= 0x40; // count: low byte
    let got = codes(&font);
    assert!(got.contains("checksum:name") && got.contains("checksum-adjustment"), "{got:?}");
}

#[test]
fn padding_must_be_zero() {
    let mut font = wght_var();
    let n = be16(&font, 4);
    let (offset, length) = (0..n)
        .map(|i| (be32(&font, 12 + 16 * i + 8), be32(&font, 12 + 16 * i + 12)))
        .find(|(_, l)| l % 4 != 0)
        .expect("a table whose length is not a multiple of 4");
    font[offset + length] = 0xAA;
    fix_adjustment(&mut font);
    assert_only(&font, &["padding"]);
}

#[test]
fn misaligned_table() {
    let mut font = wght_var();
    let (record, offset, length) = find(&font, "post");
    put32(&mut font, record + 8, offset as u32 + 1);
    put32(&mut font, record + 12, length as u32 - 1);
    fix_checksums(&mut font);
    assert_has(&font, "align:post");
}

#[test]
fn table_out_of_bounds_and_overlap() {
    let mut font = wght_var();
    let len = font.len();
    let (record, _, _) = find(&font, "post");
    put32(&mut font, record + 12, len as u32);
    fix_adjustment(&mut font);
    assert_has(&font, "bounds:post");

    let mut font = wght_var();
    let (_, glyf, _) = find(&font, "glyf");
    let (record, _, _) = find(&font, "gvar");
    put32(&mut font, record + 8, glyf as u32);
    fix_adjustment(&mut font);
    let got = codes(&font);
    assert!(got.iter().any(|c| c.starts_with("overlap:")), "{got:?}");
}

#[test]
fn truncated_file() {
    let font = wght_var();
    let got = codes(&font[..font.len() - 8]);
    assert!(got.iter().any(|c| c.starts_with("bounds:")), "{got:?}");
    assert_has(&font[..10], "sfnt-truncated");
    assert_has(&font[..40], "dir-truncated");
}

// ------------------------------------------------------------------ required tables

#[test]
fn missing_tables() {
    let font = wght_var();
    assert_has(&with_table(&font, "post", None), "missing:post");
    assert_has(&with_table(&font, "OS/2", None), "missing:OS/2");
    assert_only(&with_table(&font, "STAT", None), &["missing:STAT"]);
    let got = codes(&with_table(&font, "fvar", None));
    assert!(got.contains("orphan:gvar") && got.contains("orphan:HVAR"), "{got:?}");
}

// ------------------------------------------------------------------ glyph counts

#[test]
fn num_glyphs_disagreement() {
    let mut font = wght_var();
    let (_, maxp, _) = find(&font, "maxp");
    let n = be16(&font, maxp + 4) as u16;
    put16(&mut font, maxp + 4, n + 1);
    fix_checksums(&mut font);
    let got = codes(&font);
    for code in ["numglyphs:loca", "numglyphs:hmtx", "numglyphs:post", "numglyphs:gvar"] {
        assert!(got.contains(code), "{code} missing from {got:?}");
    }
}

#[test]
fn number_of_h_metrics() {
    let mut font = wght_var();
    let (_, hhea, _) = find(&font, "hhea");
    put16(&mut font, hhea + 34, 0);
    fix_checksums(&mut font);
    assert_has(&font, "numglyphs:hhea");

    let mut font = wght_var();
    let n = be16(&font, hhea + 34) as u16;
    put16(&mut font, hhea + 34, n - 1); // now hmtx is 2 bytes too long
    fix_checksums(&mut font);
    assert_has(&font, "numglyphs:hmtx");
}

#[test]
fn post_glyph_count() {
    let mut font = wght_var();
    let (_, post, _) = find(&font, "post");
    assert_eq!(be32(&font, post), 0x00020000, "fixture is expected to have a version 2 post");
    let n = be16(&font, post + 32) as u16;
    put16(&mut font, post + 32, n - 1);
    fix_checksums(&mut font);
    assert_has(&font, "numglyphs:post");
}

// ------------------------------------------------------------------ glyf

/// Offset (in the file) of the first composite glyph and its glyph id.
fn first_composite(font: &[u8]) -> (usize, usize) {
    let (_, head, _) = find(font, "head");
    let long = be16(font, head + 50) == 1;
    let (_, loca, loca_len) = find(font, "loca");
    let (_, glyf, _) = find(font, "glyf");
    let n = if long { loca_len / 4 } else { loca_len / 2 };
    let offset = |i: usize| if long { be32(font, loca + 4 * i) } else { be16(font, loca + 2 * i) * 2 };
    for gid in 0..n - 1 {
        if offset(gid + 1) > offset(gid) && be16(font, glyf + offset(gid)) == 0xFFFF {
            return (glyf + offset(gid), gid);
        }
    }
    panic!("no composite glyph");
}

#[test]
fn component_glyph_out_of_range() {
    let mut font = oswald();
    let (glyph, _) = first_composite(&font);
    put16(&mut font, glyph + 10 + 2, 0xFFF0); // header, flags, then glyphIndex
    fix_checksums(&mut font);
    assert_has(&font, "gid-range:glyf-component");
}

#[test]
fn component_cycle() {
    let mut font = oswald();
    let (glyph, gid) = first_composite(&font);
    put16(&mut font, glyph + 10 + 2, gid as u16);
    fix_checksums(&mut font);
    assert_has(&font, "glyf-cycle");
}

#[test]
fn maxp_limits() {
    let font = oswald();
    let (_, maxp, _) = find(&font, "maxp");
    // (field offset in maxp, code)
    for (at, code) in [
        (6, "maxp:maxPoints"),
        (8, "maxp:maxContours"),
        (10, "maxp:maxCompositePoints"),
        (12, "maxp:maxCompositeContours"),
        (28, "maxp:maxComponentElements"),
        (30, "maxp:maxComponentDepth"),
    ] {
        let mut font = font.clone();
        put16(&mut font, maxp + at, 0);
        fix_checksums(&mut font);
        assert_only(&font, &[code]);
    }
}

#[test]
fn glyph_record_truncated_and_loca_disorder() {
    let mut font = oswald();
    let (glyph, _) = first_composite(&font);
    let flags = be16(&font, glyph + 10) as u16;
    put16(&mut font, glyph + 10, flags | 0x0020); // MORE_COMPONENTS on what was the only/first one…
    // …and on every following component too, so the record runs off its end
    let mut at = glyph + 10;
    for _ in 0..8 {
        let f = be16(&font, at) as u16;
        put16(&mut font, at, f | 0x0020);
        at += 4 + if f & 1 != 0 { 4 } else { 2 } + if f & 0x8 != 0 { 2 } else if f & 0x40 != 0 { 4 } else if f & 0x80 != 0 { 8 } else { 0 };
        if f & 0x0020 == 0 {
            break;
        }
    }
    fix_checksums(&mut font);
    assert_has(&font, "glyf-parse");

    let mut font = wght_var();
    let (_, head, _) = find(&font, "head");
    assert_eq!(be16(&font, head + 50), 0, "short loca expected");
    let (_, loca, _) = find(&font, "loca");
    let second = be16(&font, loca + 2) as u16;
    put16(&mut font, loca + 2, second + 0x4000);
    fix_checksums(&mut font);
    let got = codes(&font);
    assert!(got.contains("loca-order") && got.contains("loca-bounds"), "{got:?}");
}

// ------------------------------------------------------------------ cmap

#[test]
fn cmap_maps_outside_the_glyph_range() {
    let mut font = wght_var();
    let (_, cmap, _) = find(&font, "cmap");
    let subtable = cmap + be32(&font, cmap + 4 + 4);
    assert_eq!(be16(&font, subtable), 4, "format 4 expected first");
    let seg_count = be16(&font, subtable + 6) / 2;
    let id_delta = subtable + 14 + 2 * seg_count + 2 + 2 * seg_count;
    let d = be16(&font, id_delta) as u16;
    put16(&mut font, id_delta, d.wrapping_add(1000));
    fix_checksums(&mut font);
    let got = codes(&font);
    assert!(got.contains("gid-range:cmap4") && got.contains("skrifa-charmap"), "{got:?}");
}

#[test]
fn cmap_subtable_outside_the_table() {
    let mut font = wght_var();
    let (_, cmap, len) = find(&font, "cmap");
    put32(&mut font, cmap + 4 + 4, len as u32 + 100);
    fix_checksums(&mut font);
    assert_has(&font, "cmap-bounds");
}

/// A cmap with the font's own format 4 subtable plus hand-made format 12 and 14 subtables
/// (the repo fixtures have neither). `gid12` / `gid14`: glyph ids stored in them.
fn cmap_with_formats_12_and_14(font: &[u8], gid12: u32, gid14: u16) -> Vec<u8> {
    let (_, cmap, _) = find(font, "cmap");
    let format4_at = cmap + be32(font, cmap + 8);
    let format4 = &font[format4_at..format4_at + be16(font, format4_at + 2)];
    let mut format12 = vec![];
    format12.extend(12u16.to_be_bytes());
    format12.extend(0u16.to_be_bytes());
    format12.extend(28u32.to_be_bytes()); // length: 16 + one group
    format12.extend(0u32.to_be_bytes());
    format12.extend(1u32.to_be_bytes());
    for v in [0x1F600u32, 0x1F601, gid12] {
        format12.extend(v.to_be_bytes());
    }
    let mut format14 = vec![];
    format14.extend(14u16.to_be_bytes());
    format14.extend(38u32.to_be_bytes()); // 10 + 11 + (4 + 4) + (4 + 5)
    format14.extend(1u32.to_be_bytes());
    format14.extend(&0xFE00u32.to_be_bytes()[1..]);
    format14.extend(21u32.to_be_bytes()); // default UVS
    format14.extend(29u32.to_be_bytes()); // non-default UVS
    format14.extend(1u32.to_be_bytes());
    format14.extend(&0x20u32.to_be_bytes()[1..]);
    format14.push(0);
    format14.extend(1u32.to_be_bytes());
    format14.extend(&0x2Du32.to_be_bytes()[1..]);
    format14.extend(gid14.to_be_bytes());
    assert_eq!(format14.len(), 38);

    let mut table = vec![0, 0, 0, 3];
    let first = 4 + 3 * 8;
    let offsets = [first, first + format4.len(), first + format4.len() + format14.len()];
    for ((platform, encoding), offset) in [(0u16, 3u16), (0, 5), (3, 10)].into_iter().zip(offsets) {
        table.extend(platform.to_be_bytes());
        table.extend(encoding.to_be_bytes());
        table.extend((offset as u32).to_be_bytes());
    }
    table.extend(format4);
    table.extend(&format14);
    table.extend(&format12);
    table
}

#[test]
fn cmap_formats_12_and_14() {
    let font = wght_var();
    let good = with_table(&font, "cmap", Some(cmap_with_formats_12_and_14(&font, 1, 2)));
    let (summary, issues) = check_font(&good);
    assert!(issues.is_empty(), "{issues:#?}");
    assert!(summary.refs_by_kind.contains_key("glyph-id/cmap12") && summary.refs_by_kind.contains_key("glyph-id/cmap14"), "{summary:?}");

    // the group maps two code points to gids 2 and 3; there are 3 glyphs
    let broken = with_table(&font, "cmap", Some(cmap_with_formats_12_and_14(&font, 2, 2)));
    // (skrifa's charmap iterator silently drops format 12 mappings beyond numGlyphs)
    assert_only(&broken, &["gid-range:cmap12"]);
    let broken = with_table(&font, "cmap", Some(cmap_with_formats_12_and_14(&font, 1, 9)));
    let got = codes(&broken);
    assert!(got.contains("gid-range:cmap14") && got.iter().all(|c| c == "gid-range:cmap14" || c == "skrifa-charmap"), "{got:?}");
}

// ------------------------------------------------------------------ layout

/// File offset of the first Feature table of a layout table.
fn first_feature(font: &[u8], tag: &str) -> usize {
    let (_, table, _) = find(font, tag);
    let feature_list = table + be16(font, table + 6);
    assert!(be16(font, feature_list) > 0);
    feature_list + be16(font, feature_list + 2 + 4)
}

#[test]
fn lookup_index_out_of_range() {
    for tag in ["GSUB", "GPOS"] {
        let mut font = wght_var();
        let feature = first_feature(&font, tag);
        assert!(be16(&font, feature + 2) > 0, "feature has lookups");
        put16(&mut font, feature + 4, 999);
        fix_checksums(&mut font);
        assert_only(&font, &[&format!("lookup-index:{tag}-Feature")]);
    }
}

#[test]
fn feature_index_out_of_range() {
    let mut font = wght_var();
    let (_, gsub, _) = find(&font, "GSUB");
    let script_list = gsub + be16(&font, gsub + 4);
    let script = script_list + be16(&font, script_list + 2 + 4);
    let default_lang_sys = script + be16(&font, script);
    assert!(be16(&font, default_lang_sys + 4) > 0, "langsys has features");
    put16(&mut font, default_lang_sys + 6, 77);
    fix_checksums(&mut font);
    assert_only(&font, &["feature-index:GSUB-LangSys"]);

    // required feature index: 0xFFFF is "none", anything else must exist
    let mut font = wght_var();
    put16(&mut font, default_lang_sys + 2, 500);
    fix_checksums(&mut font);
    assert_only(&font, &["feature-index:GSUB-LangSys"]);
}

#[test]
fn coverage_and_class_glyphs_out_of_range() {
    // GDEF glyph class definition
    let mut font = oswald();
    let (_, gdef, _) = find(&font, "GDEF");
    let class_def = gdef + be16(&font, gdef + 4);
    match be16(&font, class_def) {
        1 => {
            let start = be16(&font, class_def + 2) as u16;
            put16(&mut font, class_def + 2, start.wrapping_add(0xFF00));
        }
        2 => put16(&mut font, class_def + 4 + 2, 0xFFFE), // first range's endGlyphID
        f => panic!("class def format {f}"),
    }
    fix_checksums(&mut font);
    let got = codes(&font);
    assert!(got.iter().any(|c| c.starts_with("gid-range:GDEF-ClassDef") || c == "gid-range:GDEF-ClassRangeRecord"), "{got:?}");

    // first coverage table of the first GSUB lookup's first subtable
    let mut font = wght_var();
    let (_, gsub, _) = find(&font, "GSUB");
    let lookup_list = gsub + be16(&font, gsub + 8);
    let lookup = lookup_list + be16(&font, lookup_list + 2);
    let subtable = lookup + be16(&font, lookup + 6);
    let coverage = subtable + be16(&font, subtable + 2);
    match be16(&font, coverage) {
        1 => put16(&mut font, coverage + 4, 0xFFF0),
        2 => put16(&mut font, coverage + 4 + 2, 0xFFF0),
        f => panic!("coverage format {f}"),
    }
    fix_checksums(&mut font);
    let got = codes(&font);
    assert!(got.iter().any(|c| c.starts_with("gid-range:GSUB-")), "{got:?}");
}

#[test]
fn truncated_layout_table() {
    // cut GPOS in the middle of whatever comes last: either an offset now points outside
    // (read error) or an array no longer fits (truncation probe)
    let font = wght_var();
    let gpos = tables_of(&font).into_iter().find(|(t, _)| t == "GPOS").unwrap().1;
    for cut in [2, 5, 11, 20] {
        let broken = with_table(&font, "GPOS", Some(gpos[..gpos.len() - cut].to_vec()));
        let got = codes(&broken);
        assert!(got.contains("truncated:GPOS") || got.contains("read:GPOS"), "cut {cut}: {got:?}");
    }
    // and a declared count that exceeds the table: lookupCount of the lookup list
    let mut font = wght_var();
    let (_, gsub, _) = find(&font, "GSUB");
    let lookup_list = gsub + be16(&font, gsub + 8);
    put16(&mut font, lookup_list, 3000);
    fix_checksums(&mut font);
    assert_has(&font, "truncated:GSUB");
}

// ------------------------------------------------------------------ names

#[test]
fn name_id_without_record() {
    let mut font = wght_var();
    let (_, fvar, _) = find(&font, "fvar");
    let axes = fvar + be16(&font, fvar + 4);
    put16(&mut font, axes + 18, 999); // axisNameID of the first axis
    fix_checksums(&mut font);
    assert_only(&font, &["name-id:fvar-VariationAxisRecord"]);

    let mut font = wght_var();
    let (_, stat, _) = find(&font, "STAT");
    let design_axes = stat + be32(&font, stat + 8);
    put16(&mut font, design_axes + 4, 1234);
    fix_checksums(&mut font);
    assert_only(&font, &["name-id:STAT-AxisRecord"]);
}

#[test]
fn name_string_outside_the_table_and_head_constants() {
    let mut font = wght_var();
    let (_, name, _) = find(&font, "name");
    put16(&mut font, name + 6 + 8, 0xFFF0); // length of the first record's string
    fix_checksums(&mut font);
    assert_only(&font, &["read:name"]);

    let mut font = wght_var();
    let (_, head, _) = find(&font, "head");
    font[head + 12] ^= 0xFF;
    fix_checksums(&mut font);
    assert_has(&font, "head-magic");
}

// ------------------------------------------------------------------ variations

#[test]
fn axis_count_disagreement() {
    let mut font = wght_var();
    let (_, hvar, _) = find(&font, "HVAR");
    let store = hvar + be32(&font, hvar + 4);
    let regions = store + be32(&font, store + 2);
    let axes = be16(&font, regions) as u16;
    put16(&mut font, regions, axes + 1);
    fix_checksums(&mut font);
    assert_has(&font, "axis-count:HVAR");

    let mut font = oswald();
    let (_, avar, _) = find(&font, "avar");
    put16(&mut font, avar + 6, 2);
    fix_checksums(&mut font);
    let got = codes(&font);
    assert!(got.contains("axis-count:avar") && got.contains("avar-bounds"), "{got:?}");
}

#[test]
fn region_index_and_delta_set_index_out_of_range() {
    let mut font = wght_var();
    let (_, hvar, _) = find(&font, "HVAR");
    let store = hvar + be32(&font, hvar + 4);
    let data = store + be32(&font, store + 8);
    assert!(be16(&font, data + 4) > 0, "the first ItemVariationData uses regions");
    put16(&mut font, data + 6, 99);
    fix_checksums(&mut font);
    assert_only(&font, &["region-index:HVAR"]);

    // more delta rows declared than the table holds
    let mut font = wght_var();
    put16(&mut font, data, 60000);
    fix_checksums(&mut font);
    assert_has(&font, "ivd-size:HVAR");

    // MVAR value record -> delta set
    let mut font = compile("MVAR.designspace", &[]);
    let (_, mvar, _) = find(&font, "MVAR");
    assert!(be16(&font, mvar + 8) > 0, "MVAR has value records");
    put16(&mut font, mvar + 12 + 4, 40); // outer index of the first record
    fix_checksums(&mut font);
    assert_only(&font, &["varidx-outer:MVAR"]);
    put16(&mut font, mvar + 12 + 4, 0);
    put16(&mut font, mvar + 12 + 6, 4000); // inner index
    fix_checksums(&mut font);
    assert_only(&font, &["varidx-inner:MVAR"]);
}

#[test]
fn gpos_variation_index_out_of_range() {
    // shrink GDEF's store instead of hunting for a device table: every VariationIndex that
    // used the last delta set is now out of range
    let mut font = wght_var();
    let (_, gdef, _) = find(&font, "GDEF");
    assert!(be32(&font, gdef) >= 0x00010003, "GDEF 1.3 with a variation store");
    let store = gdef + be32(&font, gdef + 14);
    let data = store + be32(&font, store + 8);
    let items = be16(&font, data) as u16;
    put16(&mut font, data, items - 1);
    fix_checksums(&mut font);
    let got = codes(&font);
    assert!(got.contains("varidx-inner:GPOS") || got.contains("varidx-inner:GDEF"), "{got:?}");
}

#[test]
fn gvar_inconsistencies() {
    let mut font = wght_var();
    let (_, gvar, _) = find(&font, "gvar");
    let axes = be16(&font, gvar + 4) as u16;
    put16(&mut font, gvar + 4, axes + 1);
    fix_checksums(&mut font);
    assert_has(&font, "axis-count:gvar");

    let mut font = wght_var();
    put16(&mut font, gvar + 6, 0); // sharedTupleCount: tuples that use a shared peak now dangle
    fix_checksums(&mut font);
    assert_has(&font, "gvar-shared-index");
}

#[test]
fn second_reader_is_consulted() {
    // a defect only skrifa sees is hard to construct; at least it must agree on good fonts
    // and notice a cmap that maps outside the glyph range (see cmap test). Here: glyf gone.
    let font = wght_var();
    let broken = with_table(&font, "glyf", Some(vec![]));
    let got = codes(&broken);
    assert!(got.contains("loca-bounds"), "{got:?}");
}

// ------------------------------------------------------------------ layout structures the
// repo fixtures do not contain: contextual lookups, extension lookups, feature parameters

const RICH_FEATURES: &str = r#"
languagesystem DFLT dflt;
lookup SINGLE { sub bar by plus; } SINGLE;
lookup LIGA useExtension { sub bar bar by element_of; } LIGA;
feature calt { sub bar' lookup SINGLE plus; } calt;
feature liga { lookup LIGA; } liga;
feature ss01 { featureNames { name "Alternate bars"; }; sub bar by element_of; } ss01;
feature cv01 {
    cvParameters {
        FeatUILabelNameID { name "bar variants"; };
        ParamUILabelNameID { name "first"; };
        ParamUILabelNameID { name "second"; };
        Character 0x7C;
    };
    sub bar from [plus element_of];
} cv01;
feature kern { pos bar' 25 plus; pos bar plus -30; } kern;
"#;

/// Static-Regular.ufo with the feature file above.
fn rich_layout() -> Vec<u8> {
    static F: OnceLock<Vec<u8>> = OnceLock::new();
    F.get_or_init(|| {
        let dir = PathBuf::from(format!("/dev/shm/otref-test-{}-rich", std::process::id()));
        let _ = std::fs::remove_dir_all(&dir);
        let ufo = dir.join("Rich.ufo");
        std::fs::create_dir_all(ufo.join("glyphs")).unwrap();
        let source = PathBuf::from(format!("{TESTDATA}/Static-Regular.ufo"));
        for file in ["fontinfo.plist", "layercontents.plist", "lib.plist", "metainfo.plist"] {
            std::fs::copy(source.join(file), ufo.join(file)).unwrap();
        }
        for entry in std::fs::read_dir(source.join("glyphs")).unwrap().flatten() {
            std::fs::copy(entry.path(), ufo.join("glyphs").join(entry.file_name())).unwrap();
        }
        std::fs::write(ufo.join("features.fea"), RICH_FEATURES).unwrap();
        let out = dir.join("font.ttf");
        let status = std::process::Command::new(FONTC)
            .current_dir(&dir)
            .arg(&ufo)
            .arg("-o")
            .arg(&out)
            .arg("-b")
            .arg(dir.join("build"))
            .stdout(std::process::Stdio::null())
            .stderr(std::process::Stdio::null())
            .status()
            .unwrap();
        let bytes = std::fs::read(&out);
        let _ = std::fs::remove_dir_all(&dir);
        assert!(status.success(), "the feature-rich UFO does not compile");
        bytes.unwrap()
    })
    .clone()
}

/// Offset of `inner` (a slice of `font`) from the start of `font`.
fn offset_in(font: &[u8], inner: &[u8]) -> usize {
    inner.as_ptr() as usize - font.as_ptr() as usize
}

use skrifa::raw::{
    FontRef, TableProvider,
    tables::{
        gsub::{SubstitutionLookup, SubstitutionSubtables},
        layout::ChainedSequenceContext,
    },
};

#[test]
fn rich_layout_is_clean_and_exercises_every_reference_site() {
    let font = rich_layout();
    let (summary, issues) = check_font(&font);
    assert!(issues.is_empty(), "{issues:#?}");
    for kind in [
        "lookup-index/Feature",
        "lookup-index/SequenceLookupRecord",
        "feature-index/LangSys",
        "extension-type/GSUB",
        "name-id/GSUB-StylisticSetParams",
        "name-id/GSUB-CharacterVariantParams",
        "glyph-id/GSUB",
        "glyph-id/GPOS",
    ] {
        assert!(summary.refs_by_kind.get(kind).copied().unwrap_or(0) > 0, "no {kind} reference was checked: {:#?}", summary.refs_by_kind);
    }
}

#[test]
fn contextual_lookup_record_out_of_range() {
    let mut font = rich_layout();
    let at = {
        let gsub = FontRef::new(&font).unwrap().gsub().unwrap();
        let mut at = None;
        for lookup in gsub.lookup_list().unwrap().lookups().iter().flatten() {
            if let Ok(SubstitutionSubtables::ChainContextual(subtables)) = lookup.subtables() {
                if let Some(Ok(ChainedSequenceContext::Format3(sub))) = subtables.iter().next() {
                    let start = offset_in(&font, sub.offset_data().as_bytes());
                    at = Some(start + sub.seq_lookup_records_byte_range().start + 2);
                }
            }
        }
        at.expect("a chain context format 3 subtable")
    };
    put16(&mut font, at, 500);
    fix_checksums(&mut font);
    assert_only(&font, &["lookup-index:GSUB-SequenceLookupRecord"]);
}

#[test]
fn extension_wrapping_an_extension() {
    let mut font = rich_layout();
    let at = {
        let gsub = FontRef::new(&font).unwrap().gsub().unwrap();
        let mut at = None;
        for lookup in gsub.lookup_list().unwrap().lookups().iter().flatten() {
            if let SubstitutionLookup::Extension(ext) = lookup {
                let first = ext.subtable_offsets()[0].get().to_u32() as usize;
                at = Some(offset_in(&font, ext.offset_data().as_bytes()) + first + 2);
            }
        }
        at.expect("an extension lookup")
    };
    put16(&mut font, at, 7);
    fix_checksums(&mut font);
    assert_only(&font, &["extension-type:GSUB", "read:GSUB"]);
}

#[test]
fn feature_parameter_name_ids() {
    let font = rich_layout();
    let (ss01, cv01) = {
        let gsub = FontRef::new(&font).unwrap().gsub().unwrap();
        let list = gsub.feature_list().unwrap();
        let params = |tag: &str| {
            let record = list.feature_records().iter().find(|r| r.feature_tag() == skrifa::Tag::new(tag.as_bytes().try_into().unwrap())).unwrap();
            let feature = record.feature(list.offset_data()).unwrap();
            offset_in(&font, feature.offset_data().as_bytes()) + feature.feature_params_offset().offset().to_u32() as usize
        };
        (params("ss01"), params("cv01"))
    };
    let mut broken = font.clone();
    put16(&mut broken, ss01 + 2, 999);
    fix_checksums(&mut broken);
    assert_only(&broken, &["name-id:GSUB-StylisticSetParams"]);

    let mut broken = font.clone();
    put16(&mut broken, cv01 + 2, 998); // featUiLabelNameId
    fix_checksums(&mut broken);
    assert_only(&broken, &["name-id:GSUB-CharacterVariantParams"]);

    // two named parameters: first id + 1 must exist too
    let mut broken = font.clone();
    assert_eq!(be16(&broken, cv01 + 8), 2, "numNamedParameters");
    let first = be16(&broken, cv01 + 10) as u16;
    put16(&mut broken, cv01 + 10, first + 1);
    fix_checksums(&mut broken);
    assert_only(&broken, &["name-id:GSUB-CharacterVariantParams"]);
}

#[test]
fn single_substitution_delta_leaves_the_glyph_range() {
    let mut font = rich_layout();
    let at = {
        let gsub = FontRef::new(&font).unwrap().gsub().unwrap();
        let mut at = None;
        for lookup in gsub.lookup_list().unwrap().lookups().iter().flatten() {
            if let Ok(SubstitutionSubtables::Single(subtables)) = lookup.subtables() {
                for sub in subtables.iter().flatten() {
                    if let skrifa::raw::tables::gsub::SingleSubst::Format1(sub) = sub {
                        at = Some(offset_in(&font, sub.offset_data().as_bytes()) + 4);
                    }
                }
            }
        }
        at.expect("a single substitution format 1 subtable")
    };
    put16(&mut font, at, 0x7000);
    fix_checksums(&mut font);
    assert_only(&font, &["gid-range:GSUB-SingleSubstFormat1"]);
}

#[test]
fn feature_variations_indices() {
    let font = compile("dspace_rules/CustomFeatures.designspace", &[]);
    let (condition, substitution) = {
        let gsub = FontRef::new(&font).unwrap().gsub().unwrap();
        let variations = gsub.feature_variations().expect("FeatureVariations").unwrap();
        let record = &variations.feature_variation_records()[0];
        let set = record.condition_set(variations.offset_data()).unwrap().unwrap();
        let condition = set.conditions().get(0).unwrap();
        let skrifa::raw::tables::layout::Condition::Format1AxisRange(condition) = condition else { panic!("condition format 1 expected") };
        let substitution = record.feature_table_substitution(variations.offset_data()).unwrap().unwrap();
        (offset_in(&font, condition.offset_data().as_bytes()), offset_in(&font, substitution.offset_data().as_bytes()))
    };
    let mut broken = font.clone();
    put16(&mut broken, condition + 2, 9);
    fix_checksums(&mut broken);
    assert_only(&broken, &["axis-index:GSUB-ConditionFormat1"]);

    let mut broken = font.clone();
    put16(&mut broken, substitution + 6, 300);
    fix_checksums(&mut broken);
    assert_only(&broken, &["feature-index:GSUB-FeatureTableSubstitutionRecord"]);
}

#[test]
fn mark_filtering_set_out_of_range() {
    let mut font = oswald();
    let (_, gpos, _) = find(&font, "GPOS");
    let lookup_list = gpos + be16(&font, gpos + 8);
    let at = (0..be16(&font, lookup_list))
        .map(|i| lookup_list + be16(&font, lookup_list + 2 + 2 * i))
        .find(|lookup| be16(&font, lookup + 2) & 0x10 != 0)
        .map(|lookup| lookup + 6 + 2 * be16(&font, lookup + 4))
        .expect("a lookup with a mark filtering set");
    put16(&mut font, at, 50);
    fix_checksums(&mut font);
    assert_only(&font, &["mark-filtering-set:GPOS"]);
}

#[test]
fn colr_references() {
    let font = compile("COLRv0-var/COLRv0-var.designspace", &[]);
    let (_, colr, _) = find(&font, "COLR");
    let bases = colr + be32(&font, colr + 4);
    let layers = colr + be32(&font, colr + 8);

    let mut broken = font.clone();
    put16(&mut broken, layers, 0xFFF0); // layer glyph id
    fix_checksums(&mut broken);
    assert_only(&broken, &["gid-range:COLR-Layer"]);

    let mut broken = font.clone();
    put16(&mut broken, layers + 2, 77); // palette index
    fix_checksums(&mut broken);
    assert_only(&broken, &["palette-index:COLR"]);

    let mut broken = font.clone();
    put16(&mut broken, bases + 4, 40); // numLayers of the first base glyph
    fix_checksums(&mut broken);
    assert_only(&broken, &["colr-layer-range"]);

    let mut broken = font.clone();
    put16(&mut broken, bases, 0xFFF1); // base glyph id
    fix_checksums(&mut broken);
    assert_only(&broken, &["gid-range:COLR-BaseGlyph"]);
}

// ------------------------------------------------------------------ robustness

/// The checker is fed arbitrary damage and must answer, not panic or hang.
#[test]
fn random_damage_never_panics() {
    let mut state = 0x9E3779B97F4A7C15u64;
    let mut next = move || {
        state = state.wrapping_mul(6364136223846793005).wrapping_add(1442695040888963407);
        (state >> 33) as usize
    };
    let mut flagged = 0;
    let mut total = 0;
    for font in [wght_var(), oswald(), rich_layout()] {
        for _ in 0..1500 {
            let mut broken = font.clone();
            // damage inside the tables (the directory is covered by the container tests)
            let start = 12 + 16 * be16(&font, 4);
            for _ in 0..1 + next() % 3 {
                let at = start + next() % (font.len() - start);
                broken[at] = match next() % 4 {
                    0 => 0xFF,
                    1 => 0x00,
                    2 => broken[at].wrapping_add(1),
                    _ => next() as u8,
                };
            }
            fix_checksums(&mut broken);
            total += 1;
            if !check_font(&broken).1.is_empty() {
                flagged += 1;
            }
        }
    }
    // most random damage hits coordinates, deltas and strings, which are all legal values;
    // the structural part must be noticed often enough to show the checks are alive
    assert!(flagged * 5 > total, "only {flagged} of {total} damaged fonts were flagged");
}
